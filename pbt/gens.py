"""Shared Hypothesis strategies and builders.

Everything drawn here is plain JSON-able data; ``build_*`` functions turn it into pfhedge
objects inside the check function.  All randomness (including torch seeds) comes from
Hypothesis so a case is a pure value.
"""
import math
from typing import Any, Dict, List, Optional

import torch
from hypothesis import strategies as st

DTYPES = {"float16": torch.float16, "bfloat16": torch.bfloat16, "float32": torch.float32, "float64": torch.float64}
EPS = {"float16": 2.0 ** -10, "bfloat16": 2.0 ** -7, "float32": 2.0 ** -23, "float64": 2.0 ** -52}


def dt_of(name: str) -> torch.dtype:
    return DTYPES[name]


def width_of(dtype: str) -> int:
    return {"float16": 16, "bfloat16": 16, "float32": 32, "float64": 64}[dtype]


dtype_s = st.sampled_from(["float32", "float64"])
seed_s = st.integers(0, 2 ** 31 - 1)


def tensor(data: Any, dtype: str) -> torch.Tensor:
    return torch.tensor(data, dtype=DTYPES[dtype])


def T(tc: Dict[str, Any]) -> torch.Tensor:
    """{"dtype":..., "data": nested list} -> tensor (exact: data is representable in dtype)."""
    return torch.tensor(tc["data"], dtype=DTYPES[tc["dtype"]])


def nested(shape, elements):
    """Strategy for a nested list of the given shape."""
    if len(shape) == 0:
        return elements
    return st.lists(nested(shape[1:], elements), min_size=shape[0], max_size=shape[0])


def fl(lo: float, hi: float, dtype: str = "float64", **kw):
    w = width_of(dtype) if dtype != "bfloat16" else 32
    if w == 32:
        lo, hi = _f32_in(lo, up=True), _f32_in(hi, up=False)
    return st.floats(lo, hi, allow_nan=False, allow_infinity=False, width=w, **kw)


def _f32_in(x: float, up: bool) -> float:
    import numpy as np

    y = float(np.float32(x))
    if up and y < x:
        y = float(np.nextafter(np.float32(y), np.float32(np.inf)))
    if not up and y > x:
        y = float(np.nextafter(np.float32(y), np.float32(-np.inf)))
    return y


def real_elements(dtype: str, max_mag: float = 1e6):
    """Mixture for "any real value" tensors: small integers, zeros, repeated values, several scales."""
    return st.one_of(
        st.integers(-3, 3).map(float),
        st.sampled_from([0.0, 1.0, -1.0, 0.5, 2.0, 100.0]),
        fl(-2.0, 2.0, dtype),
        fl(-1e3, 1e3, dtype),
        fl(-max_mag, max_mag, dtype),
        fl(-1e-3, 1e-3, dtype),
    )


def positive_elements(dtype: str, lo: float = 1e-3, hi: float = 1e3):
    return st.one_of(
        st.sampled_from([1.0, 0.5, 2.0, 100.0]),
        fl(0.5, 2.0, dtype),
        fl(lo, hi, dtype),
    )


# ---------------------------------------------------------------------------------------
# Instruments
# ---------------------------------------------------------------------------------------
STOCKS = ["BrownianStock", "HestonStock", "MertonJumpStock", "KouJumpStock", "RoughBergomiStock",
          "LocalVolatilityStock"]
RATES = ["CIRRate", "VasicekRate"]
PRIMARIES = STOCKS + RATES
OPTIONS = ["EuropeanOption", "LookbackOption", "EuropeanBinaryOption", "AmericanBinaryOption"]
DERIVATIVES = OPTIONS + ["EuropeanForwardStartOption", "VarianceSwap"]

DT_CHOICES = [1 / 250, 1 / 365, 1 / 52, 1 / 12, 0.01, 0.1]


def sigma_fn_flat(time, spot):
    return torch.zeros_like(spot) + 0.2


def sigma_fn_smile(time, spot):
    # bounded local volatility in [0.1, 0.5]
    return 0.3 + 0.2 * torch.tanh(2.0 * (1.0 - spot)) * torch.exp(-time)


SIGMA_FNS = {"flat": sigma_fn_flat, "smile": sigma_fn_smile}


@st.composite
def primary_spec(draw, types: Optional[List[str]] = None, default_params: Optional[bool] = None,
                 dtype: Optional[str] = "any", cost: bool = True, dts: Optional[List[float]] = None):
    typ = draw(st.sampled_from(types or PRIMARIES))
    dflt = draw(st.booleans()) if default_params is None else default_params
    p: Dict[str, Any] = {}
    if not dflt:
        if typ == "BrownianStock":
            p = {"sigma": draw(fl(0.05, 0.8)), "mu": draw(st.sampled_from([0.0, 0.1, -0.2]))}
        elif typ == "HestonStock":
            p = {"kappa": draw(fl(0.2, 4.0)), "theta": draw(fl(0.01, 0.2)), "sigma": draw(fl(0.05, 1.0)),
                 "rho": draw(fl(-0.95, 0.95))}
        elif typ == "MertonJumpStock":
            p = {"sigma": draw(fl(0.05, 0.6)), "mu": draw(st.sampled_from([0.0, 0.1])),
                 "jump_per_year": draw(fl(0.0, 100.0)), "jump_mean": draw(fl(-0.05, 0.05)),
                 "jump_std": draw(fl(0.001, 0.05))}
        elif typ == "KouJumpStock":
            p = {"sigma": draw(fl(0.05, 0.6)), "mu": draw(st.sampled_from([0.0, 0.1])),
                 "jump_per_year": draw(fl(0.0, 100.0)), "jump_mean_up": draw(fl(0.005, 0.1)),
                 "jump_mean_down": draw(fl(0.005, 0.1)), "jump_up_prob": draw(fl(0.0, 1.0))}
        elif typ == "RoughBergomiStock":
            p = {"alpha": draw(fl(-0.45, -0.05)), "rho": draw(fl(-0.95, 0.95)), "eta": draw(fl(0.3, 2.5)),
                 "xi": draw(fl(0.01, 0.2))}
        elif typ == "LocalVolatilityStock":
            p = {}
        elif typ == "CIRRate":
            p = {"kappa": draw(fl(0.2, 4.0)), "theta": draw(fl(0.01, 0.2)), "sigma": draw(fl(0.02, 0.5))}
        elif typ == "VasicekRate":
            p = {"kappa": draw(fl(0.2, 4.0)), "theta": draw(fl(-0.05, 0.2)), "sigma": draw(fl(0.005, 0.2))}
    spec: Dict[str, Any] = {"type": typ, "params": p}
    if typ == "LocalVolatilityStock":
        spec["sigma_fn"] = draw(st.sampled_from(sorted(SIGMA_FNS)))
    spec["dt"] = draw(st.sampled_from(dts or DT_CHOICES[:1] * 3 + DT_CHOICES))
    if cost:
        spec["cost"] = draw(st.sampled_from([0.0, 0.0, 1e-4, 1e-3, 2.0 ** -10, 0.01]))
    else:
        spec["cost"] = 0.0
    if dtype == "any":
        spec["dtype"] = draw(st.sampled_from([None, "float32", "float64", "float64"]))
    else:
        spec["dtype"] = dtype
    return spec


def build_primary(spec: Dict[str, Any]):
    import pfhedge.instruments as I

    cls = getattr(I, spec["type"])
    kw = dict(spec["params"])
    kw["dt"] = spec["dt"]
    kw["cost"] = spec.get("cost", 0.0)
    if spec.get("dtype"):
        kw["dtype"] = DTYPES[spec["dtype"]]
    if spec["type"] == "LocalVolatilityStock":
        return cls(SIGMA_FNS[spec.get("sigma_fn", "flat")], **kw)
    return cls(**kw)


@st.composite
def derivative_spec(draw, types: Optional[List[str]] = None, min_steps: int = 2, max_steps: int = 8,
                    strikes=None):
    typ = draw(st.sampled_from(types or DERIVATIVES))
    steps = draw(st.integers(min_steps, max_steps))
    spec: Dict[str, Any] = {"type": typ, "steps": steps}
    if typ in OPTIONS:
        spec["call"] = draw(st.booleans())
        spec["strike"] = draw(strikes or st.sampled_from([1.0, 1.0, 0.9, 1.1, 1.03, 0.5, 2.0]))
    elif typ == "EuropeanForwardStartOption":
        spec["strike"] = draw(st.sampled_from([1.0, 0.98, 1.05]))
        spec["start_steps"] = draw(st.integers(0, steps))
    elif typ == "VarianceSwap":
        spec["strike"] = draw(st.sampled_from([0.04, 0.0, 0.1]))
    return spec


def build_derivative(spec: Dict[str, Any], underlier):
    import pfhedge.instruments as I

    cls = getattr(I, spec["type"])
    maturity = spec["steps"] * underlier.dt
    if spec["type"] in OPTIONS:
        return cls(underlier, call=spec["call"], strike=spec["strike"], maturity=maturity)
    if spec["type"] == "EuropeanForwardStartOption":
        return cls(underlier, strike=spec["strike"], maturity=maturity, start=spec["start_steps"] * underlier.dt)
    return cls(underlier, strike=spec["strike"], maturity=maturity)


def n_steps_of(maturity: float, dt: float) -> int:
    return math.ceil(maturity / dt + 1)


# listed-derivative pricers used for hedges (plain functions so they are picklable/readable)
def pricer_bs_european(derivative):
    from pfhedge.nn import BlackScholes

    return BlackScholes(derivative).price()


def pricer_intrinsic_plus_time(derivative):
    # a smooth deterministic function of the simulated state; any callable is a legal pricer
    return (derivative.ul().spot - derivative.strike).tanh() + 0.1 * derivative.time_to_maturity()


def pricer_varswap(derivative):
    ul = derivative.ul()
    return ul.variance - derivative.strike


PRICERS = {"bs": pricer_bs_european, "tanh": pricer_intrinsic_plus_time, "varswap": pricer_varswap}


# ---------------------------------------------------------------------------------------
# Hedging scenarios (derivative + hedge list + model + inputs), shared by several properties
# ---------------------------------------------------------------------------------------
OPTION_FEATURES = ["moneyness", "log_moneyness", "time_to_maturity", "expiry_time", "max_moneyness",
                   "max_log_moneyness"]
GENERIC_FEATURES = ["underlier_spot", "zeros"]
VOL_FEATURES = ["volatility", "variance"]


def feature_names_for(deriv_type: str, ul_type: str, listed: bool) -> List[str]:
    names = list(GENERIC_FEATURES)
    if deriv_type in OPTIONS:
        names += OPTION_FEATURES
    if ul_type in STOCKS:
        names += VOL_FEATURES
    if listed:
        names += ["spot"]
    return names


@st.composite
def scenario(draw, ul_types=None, deriv_types=None, models=("linear", "mlp", "naked", "bs", "ww", "recurrent", "identity"),
             dtype="any", min_steps=2, max_steps=8, max_paths=8, cost=True, allow_prev_hedge=True,
             hedge_kinds=("default", "ul", "ul+listed", "ul+listed+listed", "varswap"), extra_features=True, long_horizon=0):
    ul = draw(primary_spec(types=ul_types, dtype=dtype, cost=cost, dts=[1 / 250, 1 / 250, 1 / 52, 0.01]))
    model = draw(st.sampled_from(list(models)))
    if model in ("bs", "ww"):
        if ul["type"] not in STOCKS:
            ul["type"], ul["params"] = "BrownianStock", {}
            ul.pop("sigma_fn", None)
        d_types = [t for t in (deriv_types or OPTIONS) if t in OPTIONS]
        deriv = draw(derivative_spec(types=d_types or OPTIONS, min_steps=min_steps, max_steps=max_steps))
        if deriv["type"] in ("LookbackOption", "AmericanBinaryOption"):
            deriv["call"] = True  # puts are documented as unsupported by these BS modules
        hedge_kind = draw(st.sampled_from(["default", "ul"]))
        inputs: List[Any] = ["__model__"]
    elif model in ("identity", "inplace"):
        # a user model whose output aliases its input: one feature that is a view of a simulated buffer, one hedge
        deriv = draw(derivative_spec(types=deriv_types, min_steps=min_steps, max_steps=max_steps))
        deriv["listed"] = False
        hedge_kind = draw(st.sampled_from(["default", "ul"]))
        views = ["underlier_spot"] + (["variance"] if ul["type"] in ("HestonStock", "RoughBergomiStock") else []) + \
            (["volatility"] if ul["type"] == "LocalVolatilityStock" else [])
        inputs = [draw(st.sampled_from(views))]
    else:
        deriv = draw(derivative_spec(types=deriv_types, min_steps=min_steps, max_steps=max_steps))
        hk = [h for h in hedge_kinds if not (h == "varswap" and ul["type"] not in STOCKS)]
        hedge_kind = draw(st.sampled_from(hk))
        listed = draw(st.booleans()) if deriv["type"] in OPTIONS else False
        deriv["listed"] = listed
        names = feature_names_for(deriv["type"], ul["type"], listed)
        inputs = draw(st.lists(st.sampled_from(names), min_size=1, max_size=4, unique=True))
        if extra_features and draw(st.booleans()):
            extra = draw(st.sampled_from(["barrier_up", "barrier_down", "ones", "underlier_log_spot", "module_output"]))
            inputs.append("__" + extra)
        if model == "recurrent" or (allow_prev_hedge and draw(st.integers(0, 3)) == 0):
            inputs.append("prev_hedge")
    n_hedges = {"default": 1, "ul": 1, "ul+listed": 2, "ul+listed+listed": 3, "varswap": 1}[hedge_kind]
    if long_horizon and draw(st.integers(0, long_horizon - 1)) == 0:
        # a long contract (more than 256 time steps: a year of daily steps), one or two paths
        deriv["steps"] = draw(st.sampled_from([257, 258, 300]))
        if model in ("bs", "ww") and deriv["type"] != "EuropeanOption":
            deriv["type"] = "EuropeanOption"  # (autograd Greeks of path-dependent contracts cost seconds per evaluation over 300 steps)
        if "start_steps" in deriv:
            deriv["start_steps"] = min(deriv["start_steps"], deriv["steps"])
        max_paths = 2
    return {
        "ul": ul,
        "deriv": deriv,
        "hedge": hedge_kind,
        "listed_costs": [draw(st.sampled_from([0.0, 1e-3, 2.0 ** -9])) for _ in range(2)],
        "model": model,
        "inputs": inputs,
        "n_hedges": n_hedges,
        "n_paths": draw(st.integers(1, max_paths)),
        "model_seed": draw(seed_s),
        "sim_seed": draw(seed_s),
        "barrier": draw(st.sampled_from([1.0, 1.02, 0.98])),
        # derivatives may carry user clauses (knock-out, leverage): payoff() then differs from the bare contract
        "clause": draw(st.sampled_from([None, None, None, "knockout", "leverage"])),
    }


class Recurrent(torch.nn.Module):
    """A smooth user model whose output really depends on the prev_hedge slice (last H inputs)."""

    def __init__(self, in_features: int, out_features: int):
        super().__init__()
        self.lin = torch.nn.Linear(in_features, out_features)
        self.out_features = out_features

    def forward(self, input):
        prev = input[..., -self.out_features:]
        return torch.tanh(self.lin(input)) + 0.5 * prev


class Capped(torch.nn.Module):
    """A user model in the style of a no-transaction band: a linear score clamped between a fixed floor (a number) and a
    learned cap (a tensor depending on a parameter), through pfhedge's Clamp / LeakyClamp modules."""

    def __init__(self, in_features: int, out_features: int, variant: int):
        super().__init__()
        from pfhedge.nn import Clamp, LeakyClamp

        self.lin = torch.nn.Linear(in_features, out_features)
        self.cap = torch.nn.Parameter(torch.full((out_features,), 0.3))
        self.variant = variant % 4
        self.clamp = [Clamp(), Clamp(inverted_output="max"), LeakyClamp(0.05), LeakyClamp(0.05, inverted_output="max")][self.variant]
        self.sig = []  # which side of the two kinks every element was on (read by gradient checks)

    def forward(self, input):
        z = self.lin(input)
        cap = torch.nn.functional.softplus(self.cap).expand_as(z)
        self.sig.append((torch.sign(z - cap).detach(), torch.sign(z + 0.25).detach()))
        return self.clamp(z, -0.25, cap)


class BandFeature(torch.nn.Module):
    """Parameter-free module used as a ModuleOutput feature fed with the previous hedge (like WhalleyWilmott as a feature)."""

    def forward(self, input):
        return 0.3 * torch.tanh(input[..., :1] - 1.0) + 0.5 * input[..., 1:].mean(-1, keepdim=True)


def build_scenario(spec: Dict[str, Any]):
    """-> dict(derivative, hedge (list or None), hedger, model, ul, inputs)"""
    import pfhedge.instruments as I
    from pfhedge.features import Barrier, ModuleOutput, Ones, UnderlierSpot
    from pfhedge.nn import BlackScholes, Hedger, MultiLayerPerceptron, Naked, WhalleyWilmott

    ul = build_primary(spec["ul"])
    deriv = build_derivative(spec["deriv"], ul)
    dtype = DTYPES[spec["ul"]["dtype"]] if spec["ul"].get("dtype") else torch.get_default_dtype()
    if spec.get("clause") == "knockout":
        level = spec.get("barrier", 1.0)
        deriv.add_clause("knockout", lambda d, payoff: payoff.where(d.ul().spot.max(-1).values < 1.05 * level, torch.zeros_like(payoff)))
    elif spec.get("clause") == "leverage":
        deriv.add_clause("leverage", lambda d, payoff: 1.5 * payoff + 0.25)
    if spec["deriv"].get("listed"):
        deriv.list(PRICERS["tanh"], cost=spec["listed_costs"][0])
    kind = spec["hedge"]
    hedge = None
    maturity = deriv.maturity
    if kind == "ul":
        hedge = [ul]
    elif kind in ("ul+listed", "ul+listed+listed"):
        o1 = I.EuropeanOption(ul, strike=1.05, maturity=maturity)
        o1.list(PRICERS["tanh"], cost=spec["listed_costs"][0])
        hedge = [ul, o1]
        if kind == "ul+listed+listed":
            o2 = I.LookbackOption(ul, strike=0.95, maturity=maturity)
            o2.list(PRICERS["tanh"], cost=spec["listed_costs"][1])
            hedge.append(o2)
    elif kind == "varswap":
        vs = I.VarianceSwap(ul, maturity=maturity)
        vs.list(PRICERS["varswap"], cost=spec["listed_costs"][0])
        hedge = [vs]
    H = spec["n_hedges"]
    torch.manual_seed(spec["model_seed"])
    m = spec["model"]
    if m == "bs":
        model = BlackScholes(deriv)
        inputs = model.inputs()
    elif m == "ww":
        model = WhalleyWilmott(deriv, a=1.0)
        inputs = model.inputs()
    else:
        inputs = []
        for name in spec["inputs"]:
            if name == "__barrier_up":
                inputs.append(Barrier(spec["barrier"], up=True))
            elif name == "__barrier_down":
                inputs.append(Barrier(spec["barrier"], up=False))
            elif name == "__ones":
                inputs.append(Ones())
            elif name == "__underlier_log_spot":
                inputs.append(UnderlierSpot(log=True))
            elif name == "__module_output":
                inputs.append(ModuleOutput(torch.nn.Linear(2, 2).to(dtype), inputs=["underlier_spot", "zeros"]))
            elif name == "__band_feature":
                inputs.append(ModuleOutput(BandFeature(), inputs=["underlier_spot", "prev_hedge"]))
            else:
                inputs.append(name)
        n_feat = 0
        for name in spec["inputs"]:
            n_feat += H if name == "prev_hedge" else (2 if name == "__module_output" else 1)
        if m == "linear":
            model = torch.nn.Linear(n_feat, H)
        elif m == "mlp":
            model = MultiLayerPerceptron(n_feat, H, n_layers=2, n_units=4)
        elif m == "mlp_tanh":
            model = MultiLayerPerceptron(n_feat, H, n_layers=2, n_units=4, activation=torch.nn.Tanh())
        elif m == "linear_sigmoid":
            # the last operation keeps its own output for the backward pass
            model = torch.nn.Sequential(torch.nn.Linear(n_feat, H), torch.nn.Sigmoid())
        elif m == "mlp_tanh_out":
            model = MultiLayerPerceptron(n_feat, H, n_layers=1, n_units=3, activation=torch.nn.Tanh(), out_activation=torch.nn.Tanh())
        elif m == "identity":
            model = torch.nn.Identity()
        elif m == "inplace":
            # a user network whose first layer works in place on what it is given (as nn.ReLU(inplace=True) would)
            model = torch.nn.Sequential(torch.nn.Hardtanh(0.97, 1.03, inplace=True), torch.nn.Linear(n_feat, H))
        elif m == "naked":
            model = Naked(H)
        elif m == "recurrent":
            model = Recurrent(n_feat, H)
        elif m == "capped":
            model = Capped(n_feat, H, spec["model_seed"])
        else:
            raise ValueError(m)
        model = model.to(dtype)
    hedger = Hedger(model, inputs)
    return {"derivative": deriv, "hedge": hedge, "hedger": hedger, "model": model, "ul": ul, "inputs": inputs,
            "dtype": dtype}


def simulate(spec: Dict[str, Any], objs: Dict[str, Any]) -> None:
    torch.manual_seed(spec["sim_seed"])
    objs["derivative"].simulate(n_paths=spec["n_paths"])


def hedge_list(objs) -> list:
    return objs["hedge"] if objs["hedge"] is not None else list(objs["derivative"].underliers())
