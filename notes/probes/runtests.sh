#!/bin/bash
# usage: runtests.sh <repo dir>; prints number of baseline-stable tests that pass / fail
cd "$1" && /venv/bin/python -m pytest -q -p no:cacheprovider --timeout=900 --continue-on-collection-errors --junitxml=/tmp/scratch/junit.xml >/tmp/scratch/pytest.out 2>&1
/venv/bin/python - <<'PY'
import json, xml.etree.ElementTree as ET
b=json.load(open('/root/.vp/BASELINE.json'))
stable=set(b['stable_pass'])
t=ET.parse('/tmp/scratch/junit.xml')
res={}
for tc in t.iter('testcase'):
    name=tc.get('classname')+'::'+tc.get('name')
    ok=not any(ch.tag in('failure','error','skipped') for ch in tc)
    res[name]=ok
missing=[s for s in stable if s not in res]
failed=[s for s in stable if s in res and not res[s]]
print('stable',len(stable),'passed',sum(1 for s in stable if res.get(s)),'failed',len(failed),'missing',len(missing))
for f in failed[:40]: print('  FAIL',f)
for f in missing[:10]: print('  MISSING',f)
PY
