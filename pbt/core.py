"""Core of the property-based verification harness.

A *property module* (pbt/props/cNN.py) exposes

    PROPERTY_ID = "CNN"
    SUBS  = [Sub(...), ...]          # generated sub-checks (strategy or enumeration + oracle)
    KNOWN = {finding_id: predicate}  # optional: predicate(case, violation) -> bool

A *case* is a plain JSON-able value drawn from a Hypothesis strategy (or enumerated); the
oracle function ``check(case, ctx)`` builds pfhedge objects from it, runs the code under test
and reports through ``ctx``.  Because a case is plain data it shrinks as one value and replays
without Hypothesis.
"""
import hashlib
import json
import math
import os
import time
import traceback
from collections import Counter
from contextlib import contextmanager
from dataclasses import dataclass, field
from typing import Any, Callable, Dict, Iterable, List, Optional

VERIF_DIR = os.path.dirname(os.path.dirname(os.path.abspath(__file__)))

MAX_VIOLATIONS_PER_LABEL = 20
MAX_SAMPLES = 3
MAX_SAMPLE_CHARS = 6000


class Abort(Exception):
    """Raised to leave a check function early (after a recorded violation or an expected rejection)."""


class HarnessError(Exception):
    """A defect of the harness / oracle, never reported as a violation."""


def canon(case: Any) -> str:
    return json.dumps(case, sort_keys=True, allow_nan=True, separators=(",", ":"))


def case_hash(case: Any) -> str:
    return hashlib.sha1(canon(case).encode()).hexdigest()[:16]


@dataclass
class Sub:
    """One generated sub-check of a property."""

    name: str
    check: Callable[[Any, "Ctx"], None]
    rule: str  # how cases are generated and what makes one non-trivial
    strategy: Optional[Callable[[str], Any]] = None  # tier -> hypothesis strategy
    enumerate: Optional[Callable[[str], Iterable[Any]]] = None  # tier -> finite case list
    examples: Dict[str, int] = field(default_factory=lambda: {"quick": 1000, "thorough": 10000})
    time_cap: Dict[str, float] = field(default_factory=lambda: {"quick": 60.0, "thorough": 600.0})
    exhaustive: bool = False
    serial: bool = False  # run in one shard only (e.g. heavy statistical checks shard internally)
    fuzz: Dict[str, float] = field(default_factory=dict)  # tier -> seconds of coverage-guided (atheris) campaign per worker


class Recorder:
    """Counts what one sub-check actually explored (mergeable across shards)."""

    def __init__(self, sub: str):
        self.sub = sub
        self.evaluations = 0
        self.nontrivial = set()
        self.all_hashes = set()
        self.classes: Counter = Counter()
        self.excluded: Counter = Counter()
        self.known: Counter = Counter()
        self.samples: List[Any] = []
        self.violations: Dict[str, List[dict]] = {}
        self.violation_counts: Counter = Counter()
        self.skipped_by_time = 0
        self.wall_s = 0.0

    def to_json(self) -> dict:
        return {
            "sub": self.sub,
            "evaluations": self.evaluations,
            "nontrivial": sorted(self.nontrivial),
            "all_hashes": sorted(self.all_hashes),
            "classes": dict(self.classes),
            "excluded": dict(self.excluded),
            "known": dict(self.known),
            "samples": self.samples,
            "violations": self.violations,
            "violation_counts": dict(self.violation_counts),
            "skipped_by_time": self.skipped_by_time,
            "wall_s": self.wall_s,
        }

    def merge_json(self, d: dict) -> None:
        self.evaluations += d["evaluations"]
        self.nontrivial.update(d["nontrivial"])
        self.all_hashes.update(d["all_hashes"])
        self.classes.update(d["classes"])
        self.excluded.update(d["excluded"])
        self.known.update(d["known"])
        for s in d["samples"]:
            if len(self.samples) < MAX_SAMPLES:
                self.samples.append(s)
        for label, vs in d["violations"].items():
            cur = self.violations.setdefault(label, [])
            for v in vs:
                if len(cur) < MAX_VIOLATIONS_PER_LABEL:
                    cur.append(v)
        self.violation_counts.update(d["violation_counts"])
        self.skipped_by_time += d["skipped_by_time"]
        self.wall_s = max(self.wall_s, d["wall_s"])


class Ctx:
    """Handed to a check function for one case."""

    def __init__(self, rec: Recorder, case: Any):
        self.rec = rec
        self.case = case
        self.violations: List[dict] = []
        self._nontrivial = False

    # -- measurement -------------------------------------------------------------------
    def cls(self, *names: str) -> None:
        for n in names:
            self.rec.classes[n] += 1

    def nontrivial(self, flag: bool = True) -> None:
        self._nontrivial = self._nontrivial or bool(flag)

    def exclude(self, name: str, n: int = 1) -> None:
        """Count a comparison that was excluded by construction (e.g. a known-finding region)."""
        self.rec.excluded[name] += n

    # -- verdicts ----------------------------------------------------------------------
    def fail(self, label: str, msg: str, **detail: Any) -> None:
        self.violations.append({"label": label, "msg": msg, "detail": _jsonable(detail)})

    def check(self, cond: bool, label: str, msg: str, **detail: Any) -> bool:
        if not cond:
            self.fail(label, msg, **detail)
        return bool(cond)

    @contextmanager
    def sut(self, label: str, expected: Optional[Callable[[BaseException], Optional[str]]] = None):
        """Run code under test. An exception escaping from it is a violation ``label/raises``
        unless ``expected(exc)`` returns a class name (counted, case ends quietly)."""
        try:
            yield
        except (Abort, HarnessError):
            raise
        except Exception as exc:  # noqa: BLE001 - deliberate: classify, never swallow silently
            if expected is not None:
                name = expected(exc)
                if name:
                    self.cls("expected:" + name)
                    raise Abort()
            tb = traceback.format_exc(limit=6)
            self.fail(label + "/raises", f"{type(exc).__name__}: {exc}"[:500], traceback=tb[-1500:])
            raise Abort()

    def expect_raises(self, label: str, exc_types, fn: Callable[[], Any]) -> None:
        """The code under test must reject this input with one of ``exc_types``."""
        try:
            out = fn()
        except exc_types:
            return
        except Exception as exc:  # noqa: BLE001
            self.fail(label, f"raised {type(exc).__name__} instead of {exc_types}: {exc}"[:400])
            return
        self.fail(label, f"accepted an input it must reject (returned {_short(out)})")


def _short(x: Any) -> str:
    s = repr(x)
    return s if len(s) < 200 else s[:200] + "..."


def _jsonable(x: Any) -> Any:
    try:
        import torch

        if isinstance(x, torch.Tensor):
            x = x.detach().cpu().tolist()
    except Exception:  # noqa: BLE001
        pass
    if isinstance(x, dict):
        return {str(k): _jsonable(v) for k, v in x.items()}
    if isinstance(x, (list, tuple)):
        return [_jsonable(v) for v in x]
    if isinstance(x, float):
        if math.isnan(x) or math.isinf(x):
            return repr(x)
        return x
    if isinstance(x, (int, str, bool)) or x is None:
        return x
    try:
        return float(x)
    except Exception:  # noqa: BLE001
        return repr(x)[:300]


def run_case(sub: Sub, case: Any, rec: Recorder, known: Dict[str, Callable], active_known: Iterable[str]):
    """Execute one case; returns the list of *unlisted* violations."""
    ctx = Ctx(rec, case)
    try:
        sub.check(case, ctx)
    except Abort:
        pass
    rec.evaluations += 1
    h = case_hash(case)
    rec.all_hashes.add(h)
    if ctx._nontrivial:
        if h not in rec.nontrivial:
            rec.nontrivial.add(h)
            if len(rec.samples) < MAX_SAMPLES:
                s = canon(case)
                rec.samples.append(case if len(s) <= MAX_SAMPLE_CHARS else {"truncated_case": s[:MAX_SAMPLE_CHARS]})
    unlisted = []
    for v in ctx.violations:
        kid = match_known(case, v, known, active_known)
        if kid is not None:
            rec.known[kid] += 1
            continue
        unlisted.append(v)
        rec.violation_counts[v["label"]] += 1
        bucket = rec.violations.setdefault(v["label"], [])
        if len(bucket) < MAX_VIOLATIONS_PER_LABEL:
            bucket.append({"case": case, "msg": v["msg"], "detail": v["detail"]})
    return unlisted


def match_known(case, violation, known, active_known) -> Optional[str]:
    for kid in active_known:
        pred = known.get(kid)
        if pred is None:
            continue
        try:
            if pred(case, violation):
                return kid
        except Exception:  # noqa: BLE001 - a predicate that cannot decide does not match
            continue
    return None


def load_known_findings() -> List[dict]:
    path = os.path.join(VERIF_DIR, "known_findings.json")
    with open(path) as f:
        return json.load(f)["findings"]


class Timer:
    def __init__(self):
        self.t0 = time.time()

    def elapsed(self) -> float:
        return time.time() - self.t0
