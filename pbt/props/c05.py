"""C05 - Risk-measure values equal their mathematical definitions."""
import math
from fractions import Fraction as Fr

import numpy as np
import torch
from hypothesis import strategies as st

from contextlib import contextmanager

from ..core import Abort, Sub
from ..gens import DTYPES, EPS, fl
from ..oracles import riskmp as R
from ..oracles.exact import round_to
from ..riskgen import build, columns, sample_spec, shape_s, sub_dtype, to_torch

PROPERTY_ID = "C05"
ASSUMPTIONS = [
    "the sample the definition is applied to is input - target formed once in the tensor dtype (IEEE subtraction "
    "reproduced with numpy); Python-float targets are drawn representable in the dtype",
    "entropic risk: 50-digit mpmath evaluation of (1/a) log mean exp(-a x) after the exact shift by min x; inputs up to "
    "1e30 with a*|x| far beyond the exponent range of the dtype are generated (a*x itself stays representable); "
    "tolerance 4*eps*(max|x| + (N+8)/a) + 2*eps*|value|",
    "exponential / isoelastic utilities and their losses: a*|x| <= 80 (a is lowered deterministically to 80/max|x| when "
    "the drawn pair would overflow the *value*); relative tolerance (2*a|x|+4)*eps per term, (N+8)*eps for the mean; "
    "isoelastic on positive samples only (documented domain), a in (0,1] for the loss, a in (0,3] for the utility",
    "expected shortfall: exact Fraction mean of the ceil(pN) smallest with ceil evaluated exactly on the float p; if pN "
    "is within 1e-9 of an integer m without being equal to it both counts m and m+1 are accepted (quantifier); "
    "tolerance (k+4)*eps*mean|terms|",
    "value at risk: minimum for pN<=1, maximum for pN>N-1, k-th smallest for pN=k, otherwise anything between the "
    "adjacent order statistics (the statement does not prescribe the interpolation rule) and monotone in p; the rank may "
    "be off by 1e-9 + 2*eps*N (q is cast to the dtype), values by 4*eps*max|neighbour|",
    "quadratic CVaR: exact rational minimum of w + lam*mean(max(-w-x,0)^2) found segment by segment. The code bisects w "
    "to precision P = 1e-6*10**int(log10(widest column range + 2e-8)) (one P for the whole call) on a stationarity level "
    "1/(2 lam) that it stores in the default dtype (float32): the tolerance above the minimum is the exact excess of the "
    "objective at the ends of the interval {w: |mean(max(-w-x,0)) - 1/(2 lam)| <= (N+8)*eps*range + 2^-23/(2 lam)} "
    "widened by P (second order: ~lam*P^2), plus evaluation rounding 2(N+8)*eps*(|w|+lam*mean(.)^2) + 2*eps*range + "
    "2*eps*|value|; below the minimum only the evaluation rounding is allowed",
    "quadratic CVaR comparisons are skipped (counted) in the known-finding region K1 max(x-mean) <= 1/(2 lam), where the "
    "dtype cannot resolve the stationarity level at all ((N+8)*eps*range >= 1/(2 lam)). A RuntimeError from the bisection "
    "(max_iter) is always reported; it is attributed to known finding K5 only where the a-priori test eps*(range + "
    "(N+2)*eps*max|x|) > 1e-6*10**floor(log10(range+2e-8)) says the precision may be below the float spacing of the "
    "mean-centred bracket; the generator keeps float32 samples away from that region (each hit costs ~3 s)",
    "gradual underflow: every tolerance additionally allows 4 subnormal quanta of the dtype (samples with elements near 1e-45 / "
    "5e-324 are generated)",
    "expected_shortfall / topp with dim=None are exercised on 1-D inputs only (their docstrings disagree about "
    "multi-dimensional inputs; the property quantifies over explicit dim arguments)",
    "OCE: w is set to a drawn float32 value; utilities 1-exp(-x), x, x-x^2/2, 2 min(x,0)+max(x,0)/2 supplied by the harness",
]

A_S = st.one_of(st.sampled_from([1.0, 1.0, 0.5, 2.0, 10.0, 100.0, 1e-3, 0.1]), st.floats(1e-3, 1.0), st.floats(1.0, 100.0))
LAM_S = st.one_of(st.sampled_from([1.0, 2.0, 10.0, 10.0, 100.0]), st.floats(1.0, 100.0))


def _nan_or_inf(v: float) -> bool:
    return v != v or v in (float("inf"), float("-inf"))


def reduce_view(arr: np.ndarray, dim):
    """-> (expected output shape, [(output index, column)]) for a reduction of arr along dim (None = flatten)."""
    if dim is None:
        return (), [((), [float(v) for v in arr.reshape(-1)])]
    moved = np.moveaxis(arr, dim, 0)
    return tuple(moved.shape[1:]), columns(moved)


def check_shape_dtype(ctx, label, got, shape, dtype) -> bool:
    if not isinstance(got, torch.Tensor):
        ctx.fail(label + "/shape", f"returned {type(got).__name__}, not a tensor")
        return False
    ok = ctx.check(tuple(got.shape) == tuple(shape), label + "/shape", f"shape {tuple(got.shape)} != expected {tuple(shape)}")
    ok = ctx.check(got.dtype == DTYPES[dtype], label + "/dtype", f"dtype {got.dtype} != {dtype}") and ok
    return ok


@st.composite
def target_spec(draw, dtype, shape, scales=None, shifts=None, positive_safe=False):
    kind = draw(st.sampled_from(["none", "none", "scalar", "tensor"]))
    if kind == "none":
        return {"kind": "none"}
    if kind == "scalar":
        v = draw(st.one_of(st.sampled_from([0.0, 0.5, -1.0, 2.25]), fl(-3.0, 3.0, dtype)))
        if positive_safe:
            v = -abs(v)
        return {"kind": "scalar", "value": round_to(v, dtype)}
    return {"kind": "tensor", "spec": draw(sample_spec(dtype, shape, scales=scales, shifts=shifts))}


def apply_target(x: np.ndarray, tspec, dtype, negate_abs=False):
    """-> (target argument for pfhedge or None, d = x - target in dtype)"""
    if tspec["kind"] == "none":
        return None, x
    if tspec["kind"] == "scalar":
        return float(tspec["value"]), sub_dtype(x, float(tspec["value"]))
    z = build(tspec["spec"], dtype)
    if negate_abs:
        z = -np.abs(z)
    return to_torch(z), sub_dtype(x, z)


def call_loss(module, x, target):
    return module(x) if target is None else module(x, target)


def nontrivial_cols(cols) -> bool:
    return any(len(c) >= 2 and len(set(c)) > 1 for _, c in cols)


# ------------------------------------------------------------------------------------ entropic
@st.composite
def entropic_case(draw):
    dtype = draw(st.sampled_from(["float32", "float64"]))
    shape = draw(shape_s())
    huge = draw(st.integers(0, 5)) == 0
    scales = [1e8, 1e12, 1e20, 1e30] if huge else None
    x = draw(sample_spec(dtype, shape, scales=scales))
    return {"dtype": dtype, "x": x, "target": draw(target_spec(dtype, shape)), "a": draw(A_S),
            "form": draw(st.sampled_from(["module", "module", "functional"]))}


def check_entropic(case, ctx):
    from pfhedge.nn import EntropicRiskMeasure
    from pfhedge.nn.functional import entropic_risk_measure

    dtype, a = case["dtype"], case["a"]
    eps = EPS[dtype]
    x = build(case["x"], dtype)
    target, d = apply_target(x, case["target"], dtype)
    if not np.isfinite(d).all():
        ctx.cls("skipped:non-finite-difference")
        return
    xt = to_torch(x)
    with ctx.sut("C05/entropic"):
        if case["form"] == "module":
            got = call_loss(EntropicRiskMeasure(a), xt, target)
        else:
            got = entropic_risk_measure(to_torch(d), a=a)
    if not check_shape_dtype(ctx, "C05/entropic", got, d.shape[1:], dtype):
        return
    cols = columns(d)
    big = False
    for idx, col in cols:
        g = got[idx].item()
        want = R.entropic_mp(col, a)
        if _nan_or_inf(g):
            ctx.fail("C05/entropic/overflow", f"non-finite entropic risk {g} for a finite sample (a={a}, max|x|={max(map(abs, col)):.3g}); "
                     f"definition gives {float(want)!r}", column=list(idx), want=float(want))
            return
        tol = R.entropic_tol(col, a, eps, float(want))
        err = abs(R.mp.mpf(g) - want)
        if err > tol:
            ctx.fail("C05/entropic/value", f"column {idx}: got {g!r}, definition {float(want)!r}, err {float(err):.3e} > tol {tol:.3e}",
                     column=list(idx), got=g, want=float(want), a=a)
            return
        big = big or a * max(map(abs, col)) > 50
    ctx.nontrivial(nontrivial_cols(cols))
    ctx.cls("dtype:" + dtype, "form:" + case["form"], "target:" + case["target"]["kind"], "ndim:%d" % d.ndim,
            "N=1" if d.shape[0] == 1 else "N>=2", "|a*x|>50" if big else "|a*x|<=50")
    if big and a * max(abs(float(v)) for v in d.reshape(-1)) > 1000:
        ctx.cls("|a*x|>1000 (exp overflows the dtype)")


# ------------------------------------------------------------------------------------ utilities
UTIL_SCALES = [1e-6, 1e-3, 0.1, 1.0, 1.0, 1.0, 10.0, 1e3, 1e4]


@st.composite
def utility_case(draw):
    dtype = draw(st.sampled_from(["float32", "float64"]))
    shape = draw(shape_s(max_n=32))
    which = draw(st.sampled_from(["exp_utility", "EntropicLoss", "isoelastic_utility", "IsoelasticLoss"]))
    iso = which.startswith(("iso", "Iso"))
    if iso:
        x = draw(sample_spec(dtype, shape, scales=[1e-3, 0.1, 1.0, 1.0, 10.0, 1e3], positive=True))
        a = draw(st.one_of(st.sampled_from([1.0, 1.0, 0.5, 0.25]), st.floats(0.01, 1.0)))
        if which == "isoelastic_utility" and draw(st.booleans()):
            a = draw(st.floats(1.0, 3.0))
        tgt = draw(target_spec(dtype, shape, scales=[1e-3, 0.1, 1.0], shifts=[0.0], positive_safe=True))
    else:
        x = draw(sample_spec(dtype, shape, scales=UTIL_SCALES, shifts=[0.0, 0.0, 1.0, -1.0, 100.0]))
        a = draw(A_S)
        tgt = draw(target_spec(dtype, shape, scales=UTIL_SCALES, shifts=[0.0, 1.0]))
    if which in ("exp_utility", "isoelastic_utility"):
        tgt = {"kind": "none"}
    return {"dtype": dtype, "which": which, "x": x, "target": tgt, "a": a, "default_a": draw(st.integers(0, 7)) == 0}


AX_MAX = 80.0  # (kept for C04's constructed pairs)
# the utility value exp(a|x|) itself must stay representable: float32 overflows at a|x| = 88.7, float64 at 709.8;
# a mean over at most 32 paths is accumulated, so stay a factor 32 below the largest finite number
AX_MAX_OF = {"float32": 84.0, "float64": 700.0}


def effective_a(a: float, d: np.ndarray, dtype: str = "float32") -> float:
    m = float(np.max(np.abs(d))) if d.size else 0.0
    cap = AX_MAX_OF[dtype]
    return a if a * m <= cap else cap / m


def check_utility(case, ctx):
    from pfhedge.nn import EntropicLoss, IsoelasticLoss
    from pfhedge.nn.functional import exp_utility, isoelastic_utility

    dtype, which = case["dtype"], case["which"]
    eps = EPS[dtype]
    x = build(case["x"], dtype)
    iso = which.startswith(("iso", "Iso"))
    target, d = apply_target(x, case["target"], dtype, negate_abs=iso)
    if iso and not (d > 0).all():
        ctx.cls("skipped:non-positive-sample")  # outside the documented domain of the isoelastic utility
        return
    a = case["a"] if iso else effective_a(case["a"], d, dtype)
    xt = to_torch(x)
    ctx.cls("which:" + which, "dtype:" + dtype, "target:" + case["target"]["kind"], "ndim:%d" % d.ndim)
    if which == "exp_utility":
        use_default = case["default_a"] and float(np.max(np.abs(d))) <= AX_MAX_OF[dtype]
        with ctx.sut("C05/exp_utility"):
            got = exp_utility(xt) if use_default else exp_utility(xt, a=a)
        a = 1.0 if use_default else a
        if not check_shape_dtype(ctx, "C05/exp_utility", got, d.shape, dtype):
            return
        gf, df = got.reshape(-1).tolist(), [float(v) for v in d.reshape(-1)]
        for i, (g, v) in enumerate(zip(gf, df)):
            want = R.exp_utility_mp(v, a)
            if not abs(R.mp.mpf(g) - want) <= R.exp_utility_reltol(v, a, eps) * abs(want) + 1e-300:
                ctx.fail("C05/exp_utility/value", f"u({v!r}; a={a}) = {g!r}, definition {float(want)!r}", x=v, a=a, got=g)
                return
        ctx.nontrivial(d.size >= 2 and len(set(df)) > 1)
        return
    if which == "isoelastic_utility":
        with ctx.sut("C05/isoelastic_utility"):
            got = isoelastic_utility(xt, a=a)
        if not check_shape_dtype(ctx, "C05/isoelastic_utility", got, d.shape, dtype):
            return
        gf, df = got.reshape(-1).tolist(), [float(v) for v in d.reshape(-1)]
        for g, v in zip(gf, df):
            want = R.isoelastic_utility_mp(v, a)
            if not abs(R.mp.mpf(g) - want) <= R.isoelastic_utility_abstol(v, a, eps):
                ctx.fail("C05/isoelastic_utility/value", f"u({v!r}; a={a}) = {g!r}, definition {float(want)!r}", x=v, a=a, got=g)
                return
        ctx.cls("iso:a==1" if a == 1.0 else "iso:a!=1")
        ctx.nontrivial(d.size >= 2 and len(set(df)) > 1)
        return
    label = "C05/" + which
    with ctx.sut(label):
        module = EntropicLoss(a) if which == "EntropicLoss" else IsoelasticLoss(a)
        got = call_loss(module, xt, target)
    if not check_shape_dtype(ctx, label, got, d.shape[1:], dtype):
        return
    cols = columns(d)
    for idx, col in cols:
        g = got[idx].item()
        if which == "EntropicLoss":
            want, tol = R.entropic_loss_mp(col, a), R.entropic_loss_tol(col, a, eps)
        else:
            want, tol = R.isoelastic_loss_mp(col, a), R.isoelastic_loss_tol(col, a, eps)
        if not abs(R.mp.mpf(g) - want) <= tol:
            ctx.fail(label + "/value", f"column {idx}: got {g!r}, -mean u = {float(want)!r}, tol {tol:.3e}", column=list(idx), a=a)
            return
    if iso:
        ctx.cls("iso:a==1" if a == 1.0 else "iso:a!=1")
    ctx.nontrivial(nontrivial_cols(cols))


# ------------------------------------------------------------------------------------ ES / VaR / topp
def p_spec_s():
    return st.one_of(
        st.tuples(st.just("frac"), st.floats(0.0, 1.0)),            # k/N for a k chosen by the fraction
        st.tuples(st.just("frac"), st.floats(0.0, 1.0)),
        st.tuples(st.just("inv"), st.just(0.0)),                    # 1/N
        st.tuples(st.just("one"), st.just(0.0)),                    # 1
        st.tuples(st.just("float"), st.floats(1e-3, 1.0)),          # generic
        st.tuples(st.just("float"), st.floats(1e-3, 1.0)),
        st.tuples(st.just("near"), st.floats(0.0, 1.0)),            # next float above / below k/N
        st.tuples(st.just("tiny"), st.floats(1e-12, 1e-3)),
    ).map(list)


def resolve_p(spec, n: int, flip: bool = False) -> float:
    kind, u = spec
    if kind == "frac":
        return min(1.0, (1 + min(n - 1, int(u * n))) / n)
    if kind == "inv":
        return 1.0 / n
    if kind == "one":
        return 1.0
    if kind == "near":
        k = 1 + min(n - 1, int(u * n))
        p = k / n
        q = math.nextafter(p, 0.0 if (int(u * 1e6) % 2 == 0) else 2.0)
        return min(1.0, q) if q > 0 else p
    return float(u)


@st.composite
def esvar_case(draw):
    dtype = draw(st.sampled_from(["float32", "float64"]))
    shape = draw(shape_s(large=12))
    which = draw(st.sampled_from(["expected_shortfall", "ExpectedShortfall", "value_at_risk", "value_at_risk", "topp"]))
    dims = [0, 0] + ([1, -1] if len(shape) >= 2 else []) + ["none"]
    dim = draw(st.sampled_from(dims))
    if which == "ExpectedShortfall":
        dim = 0
    x = draw(sample_spec(dtype, shape))
    tgt = draw(target_spec(dtype, shape)) if which == "ExpectedShortfall" else {"kind": "none"}
    return {"dtype": dtype, "which": which, "x": x, "target": tgt, "dim": dim,
            "ps": draw(st.lists(p_spec_s(), min_size=1, max_size=4)), "largest": draw(st.booleans()),
            "default_p": draw(st.integers(0, 9)) == 0}


def check_esvar(case, ctx):
    from pfhedge.nn import ExpectedShortfall
    from pfhedge.nn.functional import expected_shortfall, topp, value_at_risk

    dtype, which = case["dtype"], case["which"]
    eps = EPS[dtype]
    x = build(case["x"], dtype)
    target, d = apply_target(x, case["target"], dtype)
    dim = None if case["dim"] == "none" else case["dim"]
    if dim is None and which in ("expected_shortfall", "topp") and d.ndim > 1:
        dim = 0  # see ASSUMPTIONS: dim=None is exercised on 1-D inputs only for these two
    out_shape, cols = reduce_view(d, dim)
    n = len(cols[0][1])
    ps = [resolve_p(s, n) for s in case["ps"]]
    xt = to_torch(x)
    kw = {} if dim is None else {"dim": dim}
    ctx.cls("which:" + which, "dtype:" + dtype, "dim:" + ("none" if dim is None else str(dim)), "ndim:%d" % d.ndim,
            "N=1" if n == 1 else "N>=2")
    nt = nontrivial_cols(cols)

    if which in ("expected_shortfall", "ExpectedShortfall"):
        p = ps[0]
        label = "C05/" + which
        with ctx.sut(label):
            if which == "ExpectedShortfall":
                if case["default_p"]:
                    p = 0.1
                    got = call_loss(ExpectedShortfall(), xt, target)
                else:
                    got = call_loss(ExpectedShortfall(p), xt, target)
            else:
                got = expected_shortfall(xt, p, **kw)
        ctx.cls(R.pn_class(p, n))
        if not check_shape_dtype(ctx, label, got, out_shape, dtype):
            return
        counts = R.accepted_counts(p, n)
        for idx, col in cols:
            g = got[idx].item()
            ok, msgs = False, []
            for k in counts:
                want, mabs = R.es_exact(col, k)
                tol = R.es_tol(mabs, k, eps)
                if abs(Fr(g) - want) <= Fr(tol) if not _nan_or_inf(g) else False:
                    ok = True
                    break
                msgs.append(f"k={k}: {float(want)!r} (tol {tol:.2e})")
            if not ok:
                ctx.fail(label + "/value", f"column {idx}: got {g!r} for p={p!r}, N={n}; -mean of the ceil(pN) worst: " + "; ".join(msgs),
                         column=list(idx), p=p, n=n, got=g)
                return
        ctx.nontrivial(nt)
        return

    if which == "topp":
        p = ps[0]
        largest = case["largest"]
        with ctx.sut("C05/topp"):
            res = topp(xt, p, largest=largest, **kw)
            values, indices = res.values, res.indices
        ctx.cls(R.pn_class(p, n), "largest:" + str(largest))
        counts = R.accepted_counts(p, n)
        dd = 0 if dim is None else dim
        k_got = values.shape[dd] if values.ndim else -1
        if not ctx.check(k_got in counts and tuple(np.delete(values.shape, dd)) == tuple(out_shape), "C05/topp/count",
                         f"topp returned shape {tuple(values.shape)} for p={p!r}, N={n}: expected {counts} elements along dim {dd}"):
            return
        vm = np.moveaxis(values.numpy(), dd, 0)
        im = np.moveaxis(indices.numpy(), dd, 0)
        dm = np.moveaxis(d, dd, 0) if d.ndim > 1 else d
        for (idx, col), (_, vcol) in zip(cols, columns(vm)):
            want = sorted(col, reverse=largest)[:k_got]
            if not ctx.check(sorted(vcol, reverse=largest) == want, "C05/topp/values",
                             f"column {idx}: topp values {vcol[:6]} are not the {k_got} {'largest' if largest else 'smallest'} {want[:6]}"):
                return
            icol = im[(slice(None),) + idx]
            src = dm[(slice(None),) + idx]
            if not ctx.check([float(src[i]) for i in icol] == vcol and len(set(int(i) for i in icol)) == len(icol),
                             "C05/topp/indices", f"column {idx}: indices do not address the returned values"):
                return
        ctx.nontrivial(nt)
        return

    # value at risk: each level against the statement, and monotone in p
    got_all = []
    for p in ps:
        with ctx.sut("C05/value_at_risk"):
            got = value_at_risk(xt, p, **kw)
        if not check_shape_dtype(ctx, "C05/value_at_risk", got, out_shape, dtype):
            return
        got_all.append(got)
        for idx, col in cols:
            g = got[idx].item()
            lo, hi, kind = R.var_interval(col, p, eps)
            if idx == cols[0][0]:
                ctx.cls(kind, R.pn_class(p, n))
            if _nan_or_inf(g) or not (lo <= Fr(g) <= hi):
                ctx.fail("C05/value_at_risk/value", f"column {idx}: VaR_p={g!r} for p={p!r}, N={n} ({kind}); the statement allows "
                         f"[{float(lo)!r}, {float(hi)!r}]", column=list(idx), p=p, n=n, got=g)
                return
    order = sorted(range(len(ps)), key=lambda i: ps[i])
    for i, j in zip(order, order[1:]):
        for idx, col in cols:
            a_, b_ = got_all[i][idx].item(), got_all[j][idx].item()
            tol = (4 * n + 8) * eps * max(abs(v) for v in col) + 4 * R.tiny(eps)
            if not a_ <= b_ + tol:
                ctx.fail("C05/value_at_risk/monotone-in-p", f"column {idx}: VaR({ps[i]!r})={a_!r} > VaR({ps[j]!r})={b_!r}", column=list(idx))
                return
    ctx.nontrivial(nt)


# ------------------------------------------------------------------------------------ quadratic CVaR
# most weight on scales that put max(x-mean) above 1/(2 lam) <= 0.5 (outside the K1 region); a few small ones keep the
# region itself populated (those comparisons are excluded and counted)
QCVAR_SCALES = {"float32": [1e-3, 1.0] + [3.0] * 4 + [10.0] * 6 + [30.0] * 4 + [100.0] * 4,
                "float64": [1e-6, 0.1, 1.0] + [3.0] * 4 + [10.0] * 6 + [100.0] * 5 + [1e3] * 3 + [1e4, 1e6]}
QCVAR_KINDS = ["list"] * 9 + ["seeded"] * 10 + ["const"]
QCVAR_SHIFTS = {"float32": [0.0, 0.0, 1.0, -1.0, 16.0], "float64": [0.0, 0.0, 1.0, -1.0, 100.0, -1e3, 1e4]}


@st.composite
def qcvar_case(draw):
    dtype = draw(st.sampled_from(["float32", "float64"]))
    shape = draw(shape_s())
    which = draw(st.sampled_from(["quadratic_cvar", "QuadraticCVaR"]))
    dims = [0, 0] + ([1, -1] if len(shape) >= 2 else []) + ["none"]
    dim = draw(st.sampled_from(dims)) if which == "quadratic_cvar" else 0
    x = draw(sample_spec(dtype, shape, scales=QCVAR_SCALES[dtype], shifts=QCVAR_SHIFTS[dtype], kinds=QCVAR_KINDS))
    tgt = draw(target_spec(dtype, shape, scales=QCVAR_SCALES[dtype], shifts=[0.0, 1.0])) if which == "QuadraticCVaR" else {"kind": "none"}
    # books of very different size side by side (one bisection, one precision for the whole call)
    col_scales = draw(st.sampled_from([None, None, None, [1.0, 1e3], [1e4, 1.0, 1e-2], [1.0, 1e5]])) if len(shape) >= 2 and dtype == "float64" else None
    return {"dtype": dtype, "which": which, "x": x, "target": tgt, "dim": dim, "lam": draw(LAM_S),
            "default_lam": draw(st.integers(0, 9)) == 0, "k1_probe": False, "col_scales": col_scales}


def build_qcvar_x(case):
    x = build(case["x"], case["dtype"])
    cs = case.get("col_scales")
    if cs and x.ndim >= 2:
        flat = x.reshape(x.shape[0], -1).copy()
        for j in range(flat.shape[1]):
            flat[:, j] = flat[:, j] * flat.dtype.type(cs[j % len(cs)])
        x = flat.reshape(x.shape)
    return x


@contextmanager
def qcvar_sut(ctx, label: str, unreachable: bool, **detail):
    """ctx.sut for a quadratic-CVaR call.  The bisection's RuntimeError("... exceeds max_iter") is reported under its own
    label when - and only when - the a-priori test says the derived precision may lie below the float spacing of the
    bracket (known finding K5); anywhere else it is an ordinary ``<label>/raises`` violation."""
    with ctx.sut(label):
        try:
            yield
        except RuntimeError as exc:
            if unreachable and "max_iter" in str(exc):
                ctx.fail(label + "/raises-unreachable-precision",
                         f"quadratic_cvar raised instead of returning the risk: {exc} (the centred range of the sample is below the "
                         f"resolution the derived bisection precision needs in this dtype)", apriori_unreachable=True, **detail)
                raise Abort()
            raise


def qcvar_analyse(cols, lam, dtype):
    """-> (list of QCVaR analyses, precision of the call, may-be-unreachable flag)"""
    eps = EPS[dtype]
    an = [R.QCVaR(col, lam) for _, col in cols]
    prec = R.qcvar_precision(max(float(a.range) for a in an))
    unreachable = any(R.qcvar_precision_may_be_unreachable(col, eps) for _, col in cols)
    return an, prec, unreachable


def compare_qcvar(ctx, label, got, cols, an, prec, eps, probe_k1=False) -> bool:
    """Compare each column with the exact minimum. Returns True if some comparison was made."""
    compared = False
    wmax = max(float(a.range) for a in an) + 2e-8
    for (idx, col), q in zip(cols, an):
        g = got[idx].item()
        if q.in_k1 and not probe_k1:
            ctx.exclude("K1-region(max(x-mean)<=1/(2lam))")
            continue
        # every bracket is halved in every iteration until the WIDEST one is below the precision of the call: a narrower
        # column ends with a proportionally narrower bracket (the float-spacing floor is added inside tolerances())
        prec_col = prec * (float(q.range) + 2e-8) / wmax
        tols = q.tolerances(prec_col, eps, level_relerr=2.0 ** -23)
        if tols is None:
            ctx.exclude("qcvar:stationarity-level-below-dtype-resolution")
            continue
        compared = True
        below, above = tols
        if _nan_or_inf(g):
            ctx.fail(label + "/above-min", f"column {idx}: non-finite value {g}", column=list(idx), in_k1_region=bool(q.in_k1))
            return compared
        diff = Fr(g) - q.gmin
        if diff > above:
            ctx.fail(label + "/above-min",
                     f"column {idx}: returned {g!r} but w={float(-q.tstar)!r} gives {float(q.gmin)!r}: above the infimum by "
                     f"{float(diff):.3e} > tol {float(above):.3e} (lam={float(q.lam)}, max(x-mean)={float(q.maxdev):.4g}, 1/(2lam)={float(1 / (2 * q.lam)):.4g})",
                     column=list(idx), got=g, infimum=float(q.gmin), in_k1_region=bool(q.in_k1), lam=float(q.lam))
            return compared
        if diff < -below:
            ctx.fail(label + "/below-min",
                     f"column {idx}: returned {g!r} is below the exact infimum {float(q.gmin)!r} by {float(-diff):.3e} > tol {float(below):.3e}: "
                     f"not a value of w + lam*mean(max(-w-x,0)^2)", column=list(idx), got=g, infimum=float(q.gmin),
                     in_k1_region=bool(q.in_k1), lam=float(q.lam))
            return compared
    return compared


def check_qcvar(case, ctx):
    from pfhedge.nn import QuadraticCVaR
    from pfhedge.nn.functional import quadratic_cvar

    dtype, which = case["dtype"], case["which"]
    eps = EPS[dtype]
    x = build_qcvar_x(case)
    if case.get("col_scales"):
        ctx.cls("columns:mixed-scales")
    target, d = apply_target(x, case["target"], dtype)
    dim = None if case["dim"] == "none" else case["dim"]
    out_shape, cols = reduce_view(d, dim)
    lam = 10.0 if (case["default_lam"] and which == "QuadraticCVaR") else case["lam"]
    an, prec, unreachable = qcvar_analyse(cols, lam, dtype)
    xt = to_torch(x)
    label = "C05/qcvar"
    with qcvar_sut(ctx, label, unreachable):
        if which == "QuadraticCVaR":
            got = call_loss(QuadraticCVaR() if case["default_lam"] else QuadraticCVaR(lam), xt, target)
        else:
            got = quadratic_cvar(xt, lam) if dim is None else quadratic_cvar(xt, lam, dim=dim)
    if not check_shape_dtype(ctx, label, got, out_shape, dtype):
        return
    compared = compare_qcvar(ctx, label, got, cols, an, prec, eps, probe_k1=bool(case.get("k1_probe")))
    n = len(cols[0][1])
    ctx.cls("which:" + which, "dtype:" + dtype, "dim:" + str(case["dim"]), "ndim:%d" % d.ndim, "N=1" if n == 1 else "N>=2",
            "target:" + case["target"]["kind"])
    for q in an:
        ctx.cls("sample:in-K1-region" if q.in_k1 else "sample:outside-K1-region")
    ctx.nontrivial(compared and nontrivial_cols(cols))


def _case_qcvar_columns(case):
    dtype = case["dtype"]
    x = build_qcvar_x(case)
    _, d = apply_target(x, case["target"], dtype)
    dim = None if case["dim"] == "none" else case["dim"]
    _, cols = reduce_view(d, dim)
    lam = 10.0 if (case.get("default_lam") and case["which"] == "QuadraticCVaR") else case["lam"]
    return cols, lam


def known_k1(case, violation) -> bool:
    """K1: only a QCVaR value above the infimum, on a column that lies inside max(x-mean) <= 1/(2 lam)."""
    if violation["label"] != "C05/qcvar/above-min":
        return False
    det = violation.get("detail") or {}
    if det.get("in_k1_region") is not True:
        return False
    cols, lam = _case_qcvar_columns(case)
    want = tuple(det.get("column", []))
    for idx, col in cols:
        if tuple(idx) == want:
            return bool(R.QCVaR(col, lam).in_k1)
    return False


def known_k5(case, violation) -> bool:
    """K5: the max_iter RuntimeError, only for a case in which some column lies in the a-priori region where the bisection
    precision 1e-6*10**int(log10(range)) may be below the float spacing of the mean-centred bracket."""
    if violation["label"] != "C05/qcvar/raises-unreachable-precision":
        return False
    if (violation.get("detail") or {}).get("apriori_unreachable") is not True:
        return False
    cols, _ = _case_qcvar_columns(case)
    eps = EPS[case["dtype"]]
    return any(R.qcvar_precision_may_be_unreachable(col, eps) for _, col in cols)


KNOWN = {"K1": known_k1, "K5": known_k5}


# ------------------------------------------------------------------------------------ OCE
def _t_exp(x):
    return 1 - (-x).exp()


def _t_lin(x):
    return x


def _t_quad(x):
    return x - x.square() / 2


def _t_pwl(x):
    return 2 * x.clamp(max=0.0) + x.clamp(min=0.0) / 2


TORCH_UTILS = {"exp": _t_exp, "linear": _t_lin, "quad": _t_quad, "pwl": _t_pwl}


@st.composite
def oce_case(draw):
    dtype = draw(st.sampled_from(["float32", "float64"]))
    shape = draw(shape_s(max_n=32))
    sc = [1e-3, 0.1, 1.0, 1.0, 3.0]
    return {"dtype": dtype, "x": draw(sample_spec(dtype, shape, scales=sc, shifts=[0.0, 0.0, 1.0, -1.0])),
            "target": draw(target_spec(dtype, shape, scales=sc, shifts=[0.0, 1.0])),
            "utility": draw(st.sampled_from(sorted(TORCH_UTILS))),
            "w": draw(st.one_of(st.sampled_from([0.0, 1.0, -0.5, 0.25, 2.0]), fl(0.01, 3.0, "float32"), fl(-3.0, -0.01, "float32")))}


def check_oce(case, ctx):
    from pfhedge.nn.modules.loss import OCE

    dtype, name, w = case["dtype"], case["utility"], float(np.float32(case["w"]))
    eps = EPS[dtype]
    x = build(case["x"], dtype)
    target, d = apply_target(x, case["target"], dtype)
    with np.errstate(all="ignore"):
        y = (d + d.dtype.type(w)).astype(d.dtype)  # w is a float32 parameter: exact in both dtypes
    if name == "exp" and float(np.max(-y)) > 80.0:
        ctx.exclude("oce:exp-utility-value-overflows")
        return
    m = OCE(TORCH_UTILS[name])
    with torch.no_grad():
        m.w.fill_(w)
    with ctx.sut("C05/OCE"):
        got = call_loss(m, to_torch(x), target)
    got = got.detach()
    if not check_shape_dtype(ctx, "C05/OCE", got, d.shape[1:], dtype):
        return
    cols = columns(y)
    for idx, col in cols:
        g = got[idx].item()
        want = R.oce_mp(col, w, name)
        tol = R.oce_tol(col, w, name, eps, float(want))
        if _nan_or_inf(g) or not abs(R.mp.mpf(g) - want) <= tol:
            ctx.fail("C05/OCE/value", f"column {idx}: OCE[{name}](w={w!r}) = {g!r}, w - mean u(x+w) = {float(want)!r}, tol {tol:.3e}",
                     column=list(idx), w=w, utility=name)
            return
    ctx.cls("utility:" + name, "dtype:" + dtype, "w==0" if w == 0 else "w!=0", "target:" + case["target"]["kind"], "ndim:%d" % d.ndim)
    ctx.nontrivial(nontrivial_cols(cols) and w != 0)


SUBS = [
    Sub("entropic", check_entropic,
        rule="N in [1,64] x trailing shape (), (M), (M,K); elements: explicit lists (ties, small integers, zeros, floats), "
             "constants, seeded normal / Cauchy / tied samples, scale 1e-6..1e6 (one case in six 1e8..1e30), shifts; a in "
             "[1e-3,100]; target none / float / tensor; module and functional. Oracle: 50-digit mpmath definition on the "
             "dtype-rounded input-target. Non-trivial: N>=2 and some column not constant.",
        strategy=lambda tier: entropic_case(), examples={"quick": 5000, "thorough": 50000}, time_cap={"quick": 300.0, "thorough": 1800.0}),
    Sub("utility", check_utility,
        rule="exp_utility / isoelastic_utility element-wise and EntropicLoss / IsoelasticLoss = -mean u(input-target) per "
             "column; a*|x|<=80, isoelastic on positive samples with a in (0,1] (utility also (1,3]), a==1 branch drawn "
             "explicitly. Oracle mpmath. Non-trivial: N>=2, not constant.",
        strategy=lambda tier: utility_case(), examples={"quick": 4000, "thorough": 40000}, time_cap={"quick": 300.0, "thorough": 1800.0}),
    Sub("es_var", check_esvar,
        rule="expected_shortfall (dim 0/1/-1, None on 1-D), ExpectedShortfall module with target, topp (largest and "
             "smallest), value_at_risk (dim 0/1/-1/None) at 1-4 levels p drawn from {k/N, 1/N, 1, generic float, the float "
             "next to k/N, tiny}; oracle exact Fraction order statistics; VaR additionally monotone along the sorted levels. "
             "Non-trivial: N>=2, not constant; classes pN integral/borderline/generic and VaR branch.",
        strategy=lambda tier: esvar_case(), examples={"quick": 6000, "thorough": 60000}, time_cap={"quick": 300.0, "thorough": 1800.0}),
    Sub("qcvar", check_qcvar,
        rule="quadratic_cvar (dim 0/1/-1/None) and QuadraticCVaR module with target, lam in [1,100]; samples as above with "
             "scales chosen so that most lie outside the K1 region and the bisection precision is reachable in the dtype; "
             "oracle exact rational minimum of the piecewise quadratic objective, two-sided. Non-trivial: some column "
             "compared (outside K1, resolvable) and not constant, N>=2.",
        strategy=lambda tier: qcvar_case(), examples={"quick": 4000, "thorough": 40000}, time_cap={"quick": 300.0, "thorough": 1800.0}),
    Sub("oce", check_oce,
        rule="OCE(u) for u in {1-exp(-x), x, x-x^2/2, 2min(x,0)+max(x,0)/2} with the parameter w set to a drawn float32 "
             "value, target none/float/tensor; oracle mpmath w - mean u(x-target+w). Non-trivial: w != 0, N>=2, not constant.",
        strategy=lambda tier: oce_case(), examples={"quick": 2500, "thorough": 25000}, time_cap={"quick": 300.0, "thorough": 1800.0}),
]

META = {
    "technique": "property-based testing: Hypothesis-generated samples, shapes, dims and parameters vs exact rational order "
                 "statistics / exact piecewise-quadratic minimiser (Fraction) and 50-digit mpmath definitions",
    "level_text": "Exploration: tens of thousands of generated (sample, target, shape, dim, parameter) cases per run; every "
                  "column is compared with an oracle derived from the definition (exact rationals for ES, VaR, topp, quadratic "
                  "CVaR; mpmath for entropic risk, utilities, OCE) at an a-priori rounding/bisection-precision tolerance. The "
                  "quadratic-CVaR comparison is skipped inside the known-finding region K1, which a committed replay keeps visible.",
}
