#!/venv/bin/python
"""Import seeder output (/tmp/seed/out/<ID>/<n>/) into /verif/seeded/<ID>-<n>/ and confirm it independently:
patch applies to a fresh scratch worktree of /repo, the 933 baseline-stable tests still pass with it, the
demonstration exits 0 without the change and non-zero with it. Writes meta.json (kept only if all confirmed).
usage: tools/seeded_import.py C01 [C02 ...]"""
import json
import os
import re
import shutil
import subprocess
import sys

HERE = os.path.dirname(os.path.dirname(os.path.abspath(__file__)))


def sh(cmd, **kw):
    return subprocess.run(cmd, capture_output=True, text=True, **kw)


SRC = "/tmp/seed/out"
TAG = ""


def confirm(pid, n):
    src = f"{SRC}/{pid}/{n}"
    name = f"{pid}-{TAG}{n}"
    wt = f"/tmp/seedchk_{name}"
    out = {"property": pid, "name": name}
    sh(["git", "-C", "/repo", "worktree", "remove", "--force", wt])
    r = sh(["git", "-C", "/repo", "worktree", "add", "--detach", wt, "HEAD"])
    try:
        env = dict(os.environ, OMP_NUM_THREADS="2", PYTHONWARNINGS="ignore")
        r0 = sh(["/venv/bin/python", f"{src}/demo.py"], cwd=wt, env=env, timeout=3600)
        out["demo_exit_without_change"] = r0.returncode
        a = sh(["git", "-C", wt, "apply", f"{src}/patch.diff"])
        out["patch_applies"] = a.returncode == 0
        if a.returncode != 0:
            out["error"] = a.stderr[-300:]
            return out
        r1 = sh(["/venv/bin/python", f"{src}/demo.py"], cwd=wt, env=env, timeout=3600)
        out["demo_exit_with_change"] = r1.returncode
        out["demo_message"] = (r1.stdout + r1.stderr).strip().splitlines()[-1][:300] if (r1.stdout + r1.stderr).strip() else ""
        t = sh(["/tmp/seed/runtests.sh", wt], env=env, timeout=7200)
        out["tests"] = t.stdout.strip().splitlines()[0] if t.stdout.strip() else t.stderr[-200:]
        out["confirmed"] = (out["demo_exit_without_change"] == 0 and out["demo_exit_with_change"] != 0
                            and "passed 933 failed 0 missing 0" in out["tests"])
        return out
    finally:
        sh(["git", "-C", "/repo", "worktree", "remove", "--force", wt])
        shutil.rmtree(wt, ignore_errors=True)


def main():
    global SRC, TAG
    args = sys.argv[1:]
    if args and args[0] == "--src":
        SRC, args = args[1], args[2:]
    if args and args[0] == "--tag":
        TAG, args = args[1], args[2:]
    for pid in args:
        base = f"{SRC}/{pid}"
        if not os.path.isdir(base):
            continue
        for n in sorted(os.listdir(base)):
            src = f"{base}/{n}"
            if not os.path.exists(f"{src}/patch.diff"):
                continue
            res = confirm(pid, n)
            print(json.dumps(res))
            sys.stdout.flush()
            if not res.get("confirmed"):
                continue
            dst = os.path.join(HERE, "seeded", res["name"])
            os.makedirs(dst, exist_ok=True)
            for f in ("patch.diff", "demo.py", "notes.md"):
                if os.path.exists(f"{src}/{f}"):
                    shutil.copy(f"{src}/{f}", dst)
            notes = open(f"{src}/notes.md").read() if os.path.exists(f"{src}/notes.md") else ""
            meta = {"property": pid, "name": res["name"], "origin": "independent sub-agent given only the property text and a scratch worktree",
                    "needs_to_manifest": notes[:1500],
                    "confirmed_by_me": {"patch_applies_to_repo_HEAD": True, "baseline_tests_with_change": res["tests"],
                                        "demo_exit_without_change": res["demo_exit_without_change"],
                                        "demo_exit_with_change": res["demo_exit_with_change"], "demo_message": res.get("demo_message", ""),
                                        "commands": ["git worktree add --detach <scratch> HEAD", "python demo.py (cwd=<scratch>)",
                                                     "git apply patch.diff", "python demo.py (cwd=<scratch>)", "/tmp/seed/runtests.sh <scratch> (baseline pytest command)",
                                                     "git worktree remove --force <scratch>"]}}
            json.dump(meta, open(os.path.join(dst, "meta.json"), "w"), indent=1)


if __name__ == "__main__":
    main()
