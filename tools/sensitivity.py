#!/venv/bin/python
"""Sensitivity run: apply each deliberate breakage (mutants/mutants.json) to a scratch copy of the
repository package, run the quick tier of the properties it targets against that copy
(VERIF_REPO), require exit 1 with a VIOLATION line, remove the copy.

usage: tools/sensitivity.py [--prop C01] [--mutant NAME] [--tier quick] [--jobs 4]
Writes mutants/results.json (table used in DESIGN.md).
"""
import argparse
import json
import os
import shutil
import subprocess
import sys
import tempfile
import time
from concurrent.futures import ThreadPoolExecutor

KEEP = False
HERE = os.path.dirname(os.path.dirname(os.path.abspath(__file__)))
REPO = os.environ.get("VERIF_REPO_BASE", "/repo")


def apply(mut, root):
    for ed in mut["edits"]:
        path = os.path.join(root, ed["file"])
        s = open(path).read()
        n = s.count(ed["old"])
        want = ed.get("count", 1)
        if n != want:
            raise RuntimeError(f"mutant {mut['name']}: {ed['file']}: pattern occurs {n} times, expected {want}")
        s = s.replace(ed["old"], ed["new"])
        open(path, "w").write(s)


def run_one(mut, prop, tier, jobs, seed):
    root = tempfile.mkdtemp(prefix="mut_", dir="/tmp")
    try:
        shutil.copytree(os.path.join(REPO, "pfhedge"), os.path.join(root, "pfhedge"))
        apply(mut, root)
        env = dict(os.environ, VERIF_REPO=root, VERIF_REPLAY_DIR=os.path.join(root, "replays"), VERIF_JOBS=str(jobs), VERIF_SEED=str(seed))
        t0 = time.time()
        p = subprocess.run([os.path.join(HERE, "check"), prop, tier, "--no-evidence"], env=env,
                           capture_output=True, text=True, timeout=3600)
        out = p.stdout + p.stderr
        viol = [l for l in out.splitlines() if l.startswith("VIOLATION")]
        labels = sorted({l.split(":")[1].strip() for l in out.splitlines() if l.startswith("violation:")})
        if KEEP and p.returncode == 1:
            import glob
            files = sorted(glob.glob(os.path.join(root, "replays", prop, "*.json")), key=os.path.getsize)
            if files:
                dst = os.path.join(HERE, "known", prop)
                os.makedirs(dst, exist_ok=True)
                shutil.copy(files[0], os.path.join(dst, f"regress-{mut['name']}.json"))
        return {"mutant": mut["name"], "property": prop, "exit": p.returncode, "caught": p.returncode == 1 and bool(viol),
                "labels": labels[:6], "wall_s": round(time.time() - t0, 1), "tail": out[-600:] if p.returncode != 1 else ""}
    finally:
        shutil.rmtree(root, ignore_errors=True)


def main():
    ap = argparse.ArgumentParser()
    ap.add_argument("--prop")
    ap.add_argument("--mutant")
    ap.add_argument("--tier", default="quick")
    ap.add_argument("--jobs", type=int, default=4)
    ap.add_argument("--parallel", type=int, default=4)
    ap.add_argument("--seed", type=int, default=1)
    ap.add_argument("--out", help="results file name under mutants/ (default results.json)")
    ap.add_argument("--keep", action="store_true", help="keep the smallest shrunk replay as known/<ID>/regress-<mutant>.json (a must-pass regression on the real tree)")
    a = ap.parse_args()
    global KEEP
    KEEP = a.keep
    muts = []
    import glob
    for f in sorted(glob.glob(os.path.join(HERE, "mutants", "*.json"))):
        if os.path.basename(f).startswith("results"):
            continue
        muts += json.load(open(f))["mutants"]
    work = []
    for m in muts:
        if a.mutant and m["name"] != a.mutant:
            continue
        for prop in m["properties"]:
            if a.prop and prop != a.prop:
                continue
            work.append((m, prop))
    results = []
    with ThreadPoolExecutor(a.parallel) as ex:
        futs = [ex.submit(run_one, m, prop, a.tier, a.jobs, a.seed) for m, prop in work]
        for f in futs:
            r = f.result()
            results.append(r)
            print(("CAUGHT " if r["caught"] else "MISSED ") + f"{r['property']} {r['mutant']} exit={r['exit']} {r['wall_s']}s {r['labels']}")
            if not r["caught"]:
                print("   ", r["tail"].replace("\n", "\n    "))
            sys.stdout.flush()
    path = os.path.join(HERE, "mutants", "results.json" if not a.out else a.out)
    old = []
    if os.path.exists(path):
        old = json.load(open(path))
    key = lambda r: (r["mutant"], r["property"])
    merged = {key(r): r for r in old}
    for r in results:
        r.pop("tail", None)
        merged[key(r)] = r
    json.dump(sorted(merged.values(), key=key), open(path, "w"), indent=1)
    missed = [r for r in results if not r["caught"]]
    print(f"{len(results) - len(missed)}/{len(results)} caught")
    return 1 if missed else 0


if __name__ == "__main__":
    sys.exit(main())
