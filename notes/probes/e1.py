import torch, math, warnings
warnings.filterwarnings("ignore")
import pfhedge
from pfhedge.nn import functional as F
from pfhedge.instruments import *
from pfhedge.nn import *
from pfhedge import autogreek
torch.set_printoptions(precision=10)

print("== EB gamma vs autograd at t=0.5")
s=torch.tensor([-0.1,0.0,0.1],dtype=torch.float64); t=torch.full_like(s,0.5); v=torch.full_like(s,0.2)
print(F.bs_european_binary_gamma(s,t,v), autogreek.gamma(F.bs_european_binary_price, log_moneyness=s,time_to_maturity=t,volatility=v,strike=1.0))
print("vega", F.bs_european_binary_vega(s,t,v), autogreek.vega(F.bs_european_binary_price, log_moneyness=s,time_to_maturity=t,volatility=v))
print("theta", F.bs_european_binary_theta(s,t,v), autogreek.theta(F.bs_european_binary_price, log_moneyness=s,time_to_maturity=t,volatility=v))

print("== Vasicek")
from pfhedge.stochastic import *
try:
    generate_vasicek(2,3,init_state=(0.05,))
except RecursionError as e: print("RecursionError init!=theta")
torch.manual_seed(0)
x=generate_vasicek(100000,251,init_state=(0.0,),kappa=2.0,theta=0.04)
print("start 0: mean at end", x[:,-1].mean().item(), "expected", 0.04*(1-math.exp(-2.0)))
try:
    VasicekRate(dtype=torch.float64).simulate(2)
    print("float64 ok")
except RecursionError: print("RecursionError float64")

print("== rough bergomi var mean")
torch.manual_seed(0)
for T,dt in [(251,1/250),(21,1/250),(126,1/250), (501,1/250)]:
    o=generate_rough_bergomi(50000,T,dt=dt, eta=1.0, dtype=torch.float64)
    lv=o.variance[:,-1].log()
    tt=(T-1)*dt
    print(T, "mean var", o.variance[:,-1].mean().item(), "Var log v", lv.var().item(), "expected", 1.0*tt**(2*(-0.4)+1), "spot mean", o.spot[:,-1].mean().item())

print("== underlier log spot mutates")
d=EuropeanOption(BrownianStock()); d.simulate(2)
from pfhedge.features import *
from pfhedge.features.features import UnderlierLogSpot
b=d.ul().spot.clone()
f=UnderlierSpot(log=True).of(d); f.get(None)
print("changed:", not torch.equal(b,d.ul().spot), d.ul().spot[0,:3])

print("== lookback price t=0, AB delta t=0")
z=torch.tensor([-0.1,0.0],dtype=torch.float64)
print(F.bs_lookback_price(z, z, torch.zeros_like(z), torch.full_like(z,0.2), 1.0))
print(F.bs_lookback_price(z, z+0.2, torch.zeros_like(z), torch.full_like(z,0.2), 1.0))
print(F.bs_american_binary_delta(z-0.1, z-0.1, torch.zeros_like(z), torch.full_like(z,0.2), 1.0))
print(F.bs_american_binary_price(z-0.1, z-0.1, torch.zeros_like(z), torch.full_like(z,0.2)))
print("zero vol:", F.bs_lookback_price(z-0.1, z-0.1, torch.ones_like(z), torch.zeros_like(z), 1.0), F.bs_american_binary_delta(z-0.1, z-0.1, torch.ones_like(z), torch.zeros_like(z), 1.0))

print("== clamps")
x=torch.tensor([0.0,1.0,2.0])
print(LeakyClamp(inverted_output="max")(x, torch.tensor(1.5), torch.tensor(0.5)), F.leaky_clamp(x, torch.tensor(1.5), torch.tensor(0.5), inverted_output="max"))
try:
    print(Clamp(inverted_output="max")(x, torch.tensor(1.5), torch.tensor(0.5)))
except TypeError as e: print("Clamp TypeError", e)
