"""mpmath oracles for Black-Scholes prices (zero rates), derived from the *definitions*:

    price = E[payoff]   under   S_u = S * exp(X_u),  X_u = -v^2 u / 2 + v W_u   (u in [0, t])

* European call / put and European binary: quadrature of the payoff against the law of S_T, i.e. the
  lognormal density written in the log coordinate x = log(S_T / S) ~ N(-v^2 t/2, v^2 t), with a
  breakpoint at the kink x* = log(K / S).  (The binary is the mass of {S_T >= K} resp. {S_T < K}
  obtained by integrating the density - no normal cdf is used.)
* American binary (one-touch paid at maturity) and lookback call: the law of the running maximum
  Y = max_{u<=t} X_u of a drifted Brownian motion,
      P(Y <= y) = Phi((y - nu t)/(v sqrt t)) - exp(2 nu y / v^2) Phi((-y - nu t)/(v sqrt t)),  y >= 0,
  with nu = -v^2/2:   AB = 1 if M_run >= K else P(Y >= log(K/S));
  lookback = E[g(Y)],  g(y) = (max(M_run, S e^y) - K)^+,  evaluated as  g(0) + int g'(y) P(Y > y) dy.
* ``selfcheck_*``: the running-maximum law and the lookback value are recomputed from the joint density
  of (X_t, Y) given by the reflection principle (driftless) times the Girsanov factor - a 2-D
  quadrature that shares no formula with the functions above.

All inputs are Python floats (taken exactly), all outputs mpmath numbers at ``DPS`` digits.
Parameterisation as in pfhedge: s = log(S/K), m = log(M_run/K) >= s, t > 0, v > 0, K > 0.
"""
import mpmath as mp

DPS = 30

# quadrature is asked to certify this relative accuracy (checked through mpmath's own error estimate)
QUAD_REL = mp.mpf(10) ** -18
TAIL_SD = 14  # truncation of Gaussian tails: Phi(-14) ~ 8e-45


class OracleError(Exception):
    """The oracle could not certify its own value (never a property violation)."""


def _mpf(x):
    return x if isinstance(x, mp.mpf) else mp.mpf(x)


def _quad(f, pts, scale):
    """mp.quad over consecutive breakpoints with the error estimate checked against ``scale``."""
    pts = sorted(set(pts))
    if len(pts) < 2:
        return mp.mpf(0)
    val, err = mp.quad(f, pts, error=True)
    if not (err <= QUAD_REL * scale + mp.mpf(10) ** -40):
        # retry with finer pieces and one more degree before giving up
        fine = []
        for a, b in zip(pts[:-1], pts[1:]):
            fine += [a, (a + b) / 2]
        fine.append(pts[-1])
        val, err = mp.quad(f, fine, error=True, maxdegree=10)
        if not (err <= QUAD_REL * scale * 100 + mp.mpf(10) ** -40):
            raise OracleError(f"quadrature error estimate {mp.nstr(err, 5)} too large for scale {mp.nstr(scale, 5)}")
    return val


def _pieces(lo, hi, centers, sd, ks=(-9, -5, -2, 0, 2, 5, 9)):
    """Breakpoints inside [lo, hi]: a few standard deviations around each centre of mass."""
    pts = [lo, hi]
    for c in centers:
        for k in ks:
            p = c + k * sd
            if lo < p < hi:
                pts.append(p)
    return pts


def _gauss(x, mu, sd):
    z = (x - mu) / sd
    return mp.exp(-z * z / 2) / (sd * mp.sqrt(2 * mp.pi))


# ----------------------------------------------------------------------------------------------
# European and European binary: quadrature against the law of S_T
# ----------------------------------------------------------------------------------------------
def european(s, t, v, K, call=True):
    with mp.workdps(DPS):
        s, t, v, K = map(_mpf, (s, t, v, K))
        S = K * mp.exp(s)
        sd = v * mp.sqrt(t)
        mu = -sd * sd / 2
        kink = -s  # log(K / S)
        c_strike, c_spot = mu, mu + sd * sd  # centres of K*phi and of S e^x phi
        if call:
            hi = max(kink, c_spot) + TAIL_SD * sd
            f = lambda x: (S * mp.exp(x) - K) * _gauss(x, mu, sd)
            pts = _pieces(kink, hi, (c_strike, c_spot), sd)
        else:
            lo = min(kink, c_strike) - TAIL_SD * sd
            f = lambda x: (K - S * mp.exp(x)) * _gauss(x, mu, sd)
            pts = _pieces(lo, kink, (c_strike, c_spot), sd)
        return _quad(f, pts, max(S, K))


def european_binary(s, t, v, call=True):
    with mp.workdps(DPS):
        s, t, v = map(_mpf, (s, t, v))
        sd = v * mp.sqrt(t)
        mu = -sd * sd / 2
        kink = -s
        f = lambda x: _gauss(x, mu, sd)
        if call:  # pays on {S_T >= K}
            pts = _pieces(kink, max(kink, mu) + TAIL_SD * sd, (mu,), sd)
        else:  # pays on {S_T < K}
            pts = _pieces(min(kink, mu) - TAIL_SD * sd, kink, (mu,), sd)
        return _quad(f, pts, mp.mpf(1))


# ----------------------------------------------------------------------------------------------
# Running maximum of X_u = nu u + v W_u, nu = -v^2/2
# ----------------------------------------------------------------------------------------------
def max_cdf(y, t, v):
    """P(max_{u<=t} X_u <= y) for y >= 0 (0 for y < 0)."""
    y, t, v = map(_mpf, (y, t, v))
    if y < 0:
        return mp.mpf(0)
    sd = v * mp.sqrt(t)
    nu_t = -sd * sd / 2
    # exp(2 nu y / v^2) = exp(-y)
    return mp.ncdf((y - nu_t) / sd) - mp.exp(-y) * mp.ncdf((-y - nu_t) / sd)


def american_binary(s, m, t, v):
    """P(max over the whole life >= K | running max so far, spot now); pays 1 at maturity."""
    with mp.workdps(DPS):
        s, m = _mpf(s), _mpf(m)
        if m >= 0:
            return mp.mpf(1)
        return 1 - max_cdf(-s, t, v)


def lookback(s, m, t, v, K):
    """E[(max(M_run, max_{u<=t} S_u) - K)^+] = g(0) + int_{y*}^inf S e^y P(Y > y) dy."""
    with mp.workdps(DPS):
        s, m, t, v, K = map(_mpf, (s, m, t, v, K))
        S, M = K * mp.exp(s), K * mp.exp(m)
        sd = v * mp.sqrt(t)
        ystar = max(m, mp.mpf(0)) - s  # log(max(M_run, K) / S) >= 0 because m >= s
        if ystar < 0:
            raise OracleError("running max below spot")
        g0 = max(M - K, mp.mpf(0))
        centre = sd * sd / 2  # e^y * (Gaussian tail centred at nu t) is centred at nu t + sd^2
        hi = max(ystar, centre) + TAIL_SD * sd
        f = lambda y: S * mp.exp(y) * (1 - max_cdf(y, t, v))
        pts = _pieces(ystar, hi, (centre,), sd)
        return g0 + _quad(f, pts, max(S, M, K))


def price(kind, s, m, t, v, K, call=True):
    if kind == "european":
        return european(s, t, v, K, call)
    if kind == "european_binary":
        return european_binary(s, t, v, call)
    if kind == "american_binary":
        return american_binary(s, m, t, v)
    if kind == "lookback":
        return lookback(s, m, t, v, K)
    raise ValueError(kind)


def intrinsic(kind, s, m, K, call=True):
    """Value if nothing moved any more (used only for the non-triviality rule)."""
    import math

    S, M = K * math.exp(s), K * math.exp(m if m is not None else s)
    if kind == "european":
        return max(S - K, 0.0) if call else max(K - S, 0.0)
    if kind == "european_binary":
        return float(s >= 0) if call else float(s < 0)
    if kind == "american_binary":
        return float(m >= 0)
    return max(M - K, 0.0)


# ----------------------------------------------------------------------------------------------
# Self-check through the joint density (reflection principle x Girsanov)
# ----------------------------------------------------------------------------------------------
# X_u / v = theta u + W_u with theta = -v/2.  For Brownian motion with drift theta the joint density of
# (value at t, running maximum over [0, t]) at (b, a), a >= max(b, 0), is
#       2 (2a - b) / (t sqrt(2 pi t)) * exp(-(2a - b)^2 / (2t))        [reflection principle, no drift]
#     * exp(theta b - theta^2 t / 2)                                    [Girsanov factor]
# The two functions below integrate it numerically over b <= a and over a (composite Gauss-Legendre in
# float64: 13+ digits, far more than needed to tell a right law from a wrong one) and share no formula
# with max_cdf / lookback.  They return (value used by the oracle, value from the joint density).
_GL = None


def _gl_nodes():
    global _GL
    if _GL is None:
        import numpy as np

        _GL = np.polynomial.legendre.leggauss(48)
    return _GL


def _gl(f, pts):
    """Composite Gauss-Legendre of a vectorised float64 function over consecutive breakpoints."""
    x, w = _gl_nodes()
    pts = sorted(set(float(p) for p in pts))
    tot = 0.0
    for a, b in zip(pts[:-1], pts[1:]):
        h = (b - a) / 2
        tot += h * float((w * f(a + h * (x + 1))).sum())
    return tot


def _fpieces(lo, hi, centers, sd):
    return [float(p) for p in _pieces(lo, hi, centers, sd, ks=(-8, -5, -3, -1, 0, 1, 3, 5, 8))]


def _max_density(a, t, theta):
    """Marginal density of the running maximum at a > 0: integral of the joint density over b <= a."""
    import numpy as np

    rt = t ** 0.5
    c = -theta * t  # in u = 2a - b >= a the integrand is ~ u exp(-(u + theta t)^2 / 2t)
    u_hi = max(a, c) + TAIL_SD * rt

    def f(u):
        b = 2 * a - u
        return 2 * u / (t * np.sqrt(2 * np.pi * t)) * np.exp(-u * u / (2 * t)) * np.exp(theta * b - theta * theta * t / 2)

    return _gl(f, _fpieces(a, u_hi, (c,), rt))


def selfcheck_max_cdf(y, t, v):
    import numpy as np

    y, t, v = float(y), float(t), float(v)
    theta = -v / 2
    dens = lambda arr: np.array([_max_density(float(a), t, theta) for a in arr])
    two_d = _gl(dens, _fpieces(0.0, y / v, (0.0,), t ** 0.5))
    with mp.workdps(DPS):
        return float(max_cdf(y, t, v)), two_d


def selfcheck_lookback(s, m, t, v, K):
    """(lookback(...), E[(max(M_run, S exp(v A)) - K)^+] from the joint density), A = running max of X/v."""
    import math

    import numpy as np

    s, m, t, v, K = map(float, (s, m, t, v, K))
    S, M = K * math.exp(s), K * math.exp(m)
    theta = -v / 2
    rt = t ** 0.5
    astar = (max(m, 0.0) - s) / v  # payoff is the constant (M-K)^+ while S e^{v a} <= max(M, K)
    centre = max((theta + v) * t, 0.0)  # density of A tilted by e^{v a}
    a_hi = max(astar, centre) + TAIL_SD * rt
    dens = lambda arr: np.array([_max_density(float(a), t, theta) for a in arr])
    below = _gl(dens, _fpieces(0.0, astar, (0.0, centre), rt)) if astar > 0 else 0.0
    above = _gl(lambda arr: (S * np.exp(v * arr) - K) * dens(arr), _fpieces(astar, a_hi, (centre,), rt))
    two_d = max(M - K, 0.0) * below + above
    return float(lookback(s, m, t, v, K)), two_d
