import torch, math, warnings
warnings.filterwarnings("ignore")
from pfhedge.nn import functional as F
from pfhedge.instruments import *
from pfhedge.nn import *
torch.set_printoptions(precision=10)
print("== QCVaR narrow")
torch.manual_seed(0)
x=torch.randn(1000,dtype=torch.float64)*0.01
lam=10.0
val=F.quadratic_cvar(x,lam)
ws=torch.linspace(-1,1,200001,dtype=torch.float64)
obj=ws+lam*torch.relu(-ws[:,None]-x[None,:]).square().mean(1)
print("impl",val.item(),"grid min",obj.min().item(),"closed form",(-1/(4*lam)+lam*x.var(unbiased=False)-x.mean()).item())
c=torch.full((10,),2.0,dtype=torch.float64)
print("const", F.quadratic_cvar(c,lam).item(), "true", -2.0-1/(4*lam))
x=torch.randn(1000,dtype=torch.float64)
val=F.quadratic_cvar(x,lam); obj=(ws*5)+lam*torch.relu(-(ws*5)[:,None]-x[None,:]).square().mean(1)
print("wide impl",val.item(),"grid min",obj.min().item())

print("== default cash")
l=IsoelasticLoss(0.5)
x=torch.rand(100,dtype=torch.float64)+0.5
c=l.cash(x); print("1col", c.item(), l(torch.full_like(x,c.item())).item(), l(x).item())
X=torch.rand(100,3,dtype=torch.float64)+0.5
X[:,1]*=3
try:
    c=l.cash(X); print("3col cash", c, "per-col", torch.stack([l.cash(X[:,i]) for i in range(3)]))
except Exception as e: print("3col err", type(e), e)
try:
    print("const", l.cash(torch.full((5,),2.0)))
except Exception as e: print("const err", type(e), e)
class MyLoss(HedgeLoss):
    def forward(self,input,target=0.0): return -(input-target).mean(0)
try: print(MyLoss().cash(X))
except Exception as e: print("my err", e)

print("== cast_state")
from pfhedge.stochastic import *
print(generate_geometric_brownian(1,2,init_state=(0.04,),dtype=torch.float64)[0,0].item())
print(generate_cir(1,2,dtype=torch.float64)[0,0].item())
s=BrownianStock(dtype=torch.float64); s.simulate(1, init_state=(1.1,)); print(s.spot[0,0].item())
print("== n steps")
from math import ceil
for M,dt in [(20/250,1/250),(0.3,0.1),(0.7,0.1),(0.15,0.05),(1.0,1/365),(30/365,1/365),(1.0,1/12),(0.25,1/12),(5/250,1/250),(0.2,0.1),(0.25,0.1),(3/12,1/12), (0.35,0.05),(1.1,0.1),(2.3,0.1)]:
    from fractions import Fraction
    r=Fraction(M)/Fraction(dt)
    print(M,dt,"code T",ceil(M/dt+1),"exact ceil+1",math.ceil(r)+1, float(r))
