"""Large-sample statistics with explicit standard errors and the retest protocol (DESIGN.md 2.1).

Every statistical assertion in the harness is a ``Stat``: an estimate, its standard error
*estimated from the same sample* through the influence function of the estimator (so variances use
fourth moments, correlations the full delta method), the value the oracle expects and an optional
a-priori absolute allowance (discretisation, float rounding).  The decision rule is

    |estimate - expected| <= Z * se + allow,          Z = 6   (two-sided normal tail 2.0e-9)

and a failing statistic is only a *candidate*: ``retest`` re-simulates the case on an independent
sample four times larger (seed derived from the case by SHA-256, never from a clock or a global RNG)
and reports a violation only if the same statistic fails again, on the same side.  Under a correct
implementation the probability of a reported violation is about (2e-9)^2 / 2 per assertion; even if
the normal approximation were wrong by three orders of magnitude in each tail this stays below 1e-11
per assertion, i.e. far below 1e-6 for the ~1e4 assertions of one run.

Heavy-tailed quantities must be handed over in the log domain (or through a control variate) by the
caller; ``Stat.dominance`` (largest single contribution to the estimated variance of the estimator) is
reported so that a caller can refuse to assert a statistic whose error bar rests on a few sample points.
"""
import hashlib
import json
import math
from typing import Any, Callable, Dict, List, Optional, Sequence

import torch

Z = 6.0
RETEST_FACTOR = 4


class Stat:
    __slots__ = ("label", "name", "est", "se", "expected", "allow", "n", "dominance", "info")

    def __init__(self, label: str, name: str, est: float, se: float, expected: float, allow: float = 0.0,
                 n: int = 0, dominance: float = 0.0, info: Optional[Dict[str, Any]] = None):
        self.label, self.name = label, name
        self.est, self.se, self.expected, self.allow = float(est), float(se), float(expected), float(allow)
        self.n, self.dominance, self.info = int(n), float(dominance), dict(info or {})

    @property
    def dev(self) -> float:
        return self.est - self.expected

    @property
    def z(self) -> float:
        """Excess deviation (after the allowance) in standard errors."""
        d = max(abs(self.dev) - self.allow, 0.0)
        if d == 0.0:
            return 0.0
        if not (self.se > 0.0) or not math.isfinite(self.se):
            return math.inf
        return d / self.se

    @property
    def ok(self) -> bool:
        if not (math.isfinite(self.est) and math.isfinite(self.expected)):
            return False
        return self.z <= Z

    def describe(self) -> str:
        return (f"{self.name}: estimate {self.est:.8g}, expected {self.expected:.8g}, deviation {self.dev:+.3e} "
                f"= {self.z:.1f} SE beyond the allowance (SE {self.se:.3e}, allowance {self.allow:.3e}, n={self.n})")

    def detail(self) -> Dict[str, Any]:
        d = {"name": self.name, "estimate": self.est, "expected": self.expected, "se": self.se, "allow": self.allow,
             "z": self.z, "n": self.n, "dominance": self.dominance}
        d.update(self.info)
        return d


# --------------------------------------------------------------------------------------- estimators
def _f64(x: torch.Tensor) -> torch.Tensor:
    return x.detach().to(torch.float64).reshape(-1)


def influence_stat(label: str, name: str, est: float, g: torch.Tensor, expected: float, allow: float = 0.0,
                   info: Optional[Dict[str, Any]] = None) -> Stat:
    """``g`` = influence-function values of the estimator (mean zero up to O(1/n)); SE = std(g)/sqrt(n)."""
    n = g.numel()
    gc = g - g.mean()
    ss = float((gc * gc).sum())
    se = math.sqrt(ss / max(n - 1, 1) / n) if n > 1 else math.inf
    dom = float((gc * gc).max()) / ss if ss > 0 else 0.0
    return Stat(label, name, est, se, expected, allow, n, dom, info)


def mean_stat(label: str, name: str, x: torch.Tensor, expected: float, allow: float = 0.0,
              info: Optional[Dict[str, Any]] = None) -> Stat:
    x = _f64(x)
    return influence_stat(label, name, float(x.mean()), x, expected, allow, info)


def var_stat(label: str, name: str, x: torch.Tensor, expected: float, allow: float = 0.0,
             info: Optional[Dict[str, Any]] = None) -> Stat:
    """Unbiased sample variance; SE from the fourth central moment (influence (x-m)^2 - s^2)."""
    x = _f64(x)
    n = x.numel()
    d = x - x.mean()
    d2 = d * d
    est = float(d2.sum()) / max(n - 1, 1)
    return influence_stat(label, name, est, d2, expected, allow, info)


def corr_stat(label: str, name: str, x: torch.Tensor, y: torch.Tensor, expected: float, allow: float = 0.0,
              info: Optional[Dict[str, Any]] = None) -> Stat:
    """Pearson correlation; SE by the delta method: g = r*(xy/sxy - x^2/(2 sxx) - y^2/(2 syy)) for centred x, y."""
    x, y = _f64(x), _f64(y)
    x = x - x.mean()
    y = y - y.mean()
    sxx, syy, sxy = float((x * x).mean()), float((y * y).mean()), float((x * y).mean())
    if not (sxx > 0 and syy > 0):
        return Stat(label, name, math.nan, math.inf, expected, allow, x.numel(), 0.0, info)
    r = sxy / math.sqrt(sxx * syy)
    # d r = (dsxy - r/2*(sqrt(syy/sxx) dsxx + sqrt(sxx/syy) dsyy)) / sqrt(sxx syy)
    g = (x * y - 0.5 * r * (math.sqrt(syy / sxx) * x * x + math.sqrt(sxx / syy) * y * y)) / math.sqrt(sxx * syy)
    return influence_stat(label, name, r, g, expected, allow, info)


def log_mgf_stat(label: str, name: str, x: torch.Tensor, expected: float, allow: float = 0.0,
                 info: Optional[Dict[str, Any]] = None) -> Stat:
    """For (near-)Gaussian x = log V: the statistic mean(x) + var(x)/2, which equals log E[V] for a Gaussian x.
    Influence x + (x-m)^2/2: every moment involved exists, so the CLT applies although V itself is heavy-tailed."""
    x = _f64(x)
    n = x.numel()
    m = x.mean()
    d = x - m
    est = float(m) + 0.5 * float((d * d).sum()) / max(n - 1, 1)
    return influence_stat(label, name, est, x + 0.5 * d * d, expected, allow, info)


# --------------------------------------------------------------------------------------- retest protocol
def derive_seed(case: Any, salt: str) -> int:
    """Deterministic 31-bit seed from the case value (plain JSON data) and a salt."""
    s = json.dumps(case, sort_keys=True, allow_nan=True, separators=(",", ":")) + "|" + salt
    return int.from_bytes(hashlib.sha256(s.encode()).digest()[:4], "big") & 0x7FFFFFFF


def retest(ctx, case: Any, simulate: Callable[[int, int], Sequence[Stat]], seed: int, n_paths: int,
           on_stats: Optional[Callable[[Sequence[Stat]], None]] = None) -> List[Stat]:
    """Run ``simulate(seed, n_paths)`` -> stats; every failing statistic is re-estimated by
    ``simulate(derived seed, 4*n_paths)`` and reported through ``ctx.fail`` only if it fails again on the same side.
    Returns the first-pass statistics (for class counters)."""
    first = list(simulate(seed, n_paths))
    if on_stats is not None:
        on_stats(first)
    bad = [s for s in first if not s.ok]
    if not bad:
        return first
    ctx.cls("retest:triggered")
    second = {(s.label, s.name): s for s in simulate(derive_seed(case, "retest"), RETEST_FACTOR * n_paths)}
    for s in bad:
        t = second.get((s.label, s.name))
        if t is None:
            # the statistic could not be formed on the second sample (e.g. the code raised): keep the first verdict
            ctx.fail(s.label, s.describe() + " [no second estimate]", **s.detail())
            continue
        same_side = (not math.isfinite(s.dev)) or (not math.isfinite(t.dev)) or (s.dev > 0) == (t.dev > 0)
        if (not t.ok) and same_side:
            ctx.fail(s.label, t.describe() + f" [first sample: {s.z:.1f} SE at n={s.n}]",
                     first=s.detail(), **t.detail())
        else:
            ctx.cls("retest:cleared")
    return first


def chunks(n: int, size: int):
    size = max(1, int(size))
    done = 0
    while done < n:
        m = min(size, n - done)
        yield m
        done += m
