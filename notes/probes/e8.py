import torch, math, warnings, copy
warnings.filterwarnings("ignore")
from pfhedge.instruments import *
from pfhedge.nn import *
from pfhedge.nn.modules.loss import OCE
torch.manual_seed(0)
torch.set_default_dtype(torch.float64)
stock=BrownianStock(cost=2e-3, dtype=torch.float64)
d=EuropeanOption(stock, maturity=6/250)
d.simulate(40)
crits=[EntropicRiskMeasure(2.0), ExpectedShortfall(0.3), QuadraticCVaR(3.0), EntropicLoss(1.5), torch.nn.MSELoss(), OCE(lambda x:1-torch.exp(-x))]
for inputs in [["log_moneyness","time_to_maturity","volatility"],["log_moneyness","time_to_maturity","prev_hedge"]]:
  for crit in crits:
    model=MultiLayerPerceptron(len(inputs),1,n_layers=1,n_units=4,activation=torch.nn.Tanh()).double()
    h=Hedger(model,inputs,criterion=crit)
    params=[p for p in h.parameters()]
    def loss():
        return h.criterion(h.compute_portfolio(d), d.payoff())
    L=loss(); g=torch.autograd.grad(L,params,allow_unused=True)
    gflat=torch.cat([ (gi if gi is not None else torch.zeros_like(p)).flatten() for gi,p in zip(g,params)])
    worst=0
    for trial in range(6):
        vdir=[torch.randn_like(p) for p in params]
        def at(eps):
            with torch.no_grad():
                for p,v in zip(params,vdir): p.add_(eps*v)
                out=loss().item()
                for p,v in zip(params,vdir): p.sub_(eps*v)
            return out
        hh=1e-5
        fd=(8*(at(hh)-at(-hh))-(at(2*hh)-at(-2*hh)))/(12*hh)
        an=sum((gi*v).sum() for gi,v in zip(g,vdir) if gi is not None).item()
        worst=max(worst,abs(fd-an)/(abs(an)+1e-12))
    print(inputs[-1], type(crit).__name__, "loss",L.item(),"worst rel",worst)
