import torch, math, warnings, random
warnings.filterwarnings("ignore")
from fractions import Fraction as Fr
from pfhedge.nn import functional as F
from pfhedge.instruments import *
from pfhedge.nn import *
random.seed(0); torch.manual_seed(0)
def oracle(spot,unit,cost,payoff,first):
    N,H,T=spot.shape; out=[]
    for n in range(N):
        tot=Fr(0)
        for h in range(H):
            c=Fr(float(torch.tensor(cost[h]).item())) if cost is not None else Fr(0)  # float32-rounded rate
            for t in range(T-1):
                tot+=Fr(unit[n,h,t].item())*(Fr(spot[n,h,t+1].item())-Fr(spot[n,h,t].item()))
                tot-=c*abs(Fr(unit[n,h,t+1].item())-Fr(unit[n,h,t].item()))*Fr(spot[n,h,t+1].item())
            if first: tot-=c*abs(Fr(unit[n,h,0].item()))*Fr(spot[n,h,0].item())
        if payoff is not None: tot-=Fr(payoff[n].item())
        out.append(float(tot))
    return torch.tensor(out,dtype=torch.float64)
worst=0
for it in range(200):
    N,H,T=random.randint(1,4),random.randint(1,3),random.randint(2,7)
    spot=torch.randn(N,H,T,dtype=torch.float64)*random.choice([1,100]); unit=torch.randn(N,H,T,dtype=torch.float64)
    cost=random.choice([None,[random.choice([0.0,1e-4,0.01,0.3]) for _ in range(H)]])
    payoff=random.choice([None,torch.randn(N,dtype=torch.float64)]); first=random.random()<0.5
    got=F.pl(spot,unit,cost,payoff,deduct_first_cost=first)
    exp=oracle(spot,unit,cost,payoff,first)
    scale=(unit.abs()*spot.abs()).sum(dim=(1,2)).max().item()+1
    worst=max(worst,((got-exp).abs().max().item())/scale)
print("worst scaled err",worst)
# hedger with two hedges incl listed derivative
stock=HestonStock(cost=1e-3); opt=EuropeanOption(stock,maturity=6/250); vs=VarianceSwap(stock,maturity=6/250)
vs.list(lambda d: d.ul().variance-d.strike, cost=2e-3)
look=LookbackOption(stock,maturity=6/250)
h=Hedger(torch.nn.Linear(3,2),["moneyness","time_to_maturity","volatility"])
look.simulate(5)
plv=h.compute_pl(look,hedge=[stock,vs]); unit=h.compute_hedge(look,hedge=[stock,vs])
spot=torch.stack([stock.spot,vs.spot],1)
exp=oracle(spot.double(),unit.detach().double(),[1e-3,2e-3],look.payoff().double(),True)
print((plv.detach().double()-exp).abs().max().item())
# WW
d=EuropeanOption(BrownianStock(cost=1e-3)); m=WhalleyWilmott(d,a=2.0)
x=torch.tensor([[-0.01,0.1,0.2,0.3],[0.0,0.1,0.2,0.9]])
bs=BlackScholes(d); delta=bs.delta(x[:,[0]],x[:,[1]],x[:,[2]]); gam=bs.gamma(x[:,[0]],x[:,[1]],x[:,[2]]); S=torch.exp(x[:,[0]])
w=(3*1e-3*gam**2*S/(2*2.0))**(1/3)
print(m(x).flatten(), torch.minimum(torch.maximum(x[:,[3]],delta-w),delta+w).flatten())
