"""C10 - Simulated paths follow the law of the model they are named after.

Sub-checks
  pathwise      generate_brownian / generate_geometric_brownian / Merton and Kou with zero jump intensity, driven by
                an engine stub that returns Hypothesis-generated normals; oracle = closed-form solution in mpmath.
  engines       randn_antithetic (pairs cancel, shuffle is a row permutation), box_muller (formula in mpmath),
                randn_sobol_boxmuller (pipeline = box_muller of the Sobol points; first two moments).
  dist_*        large-sample moments with standard errors and the retest rule (oracles/stats.py):
                diffusion (Brownian, GBM, Merton, Kou), meanrev (CIR, Vasicek), heston, localvol, rbergomi.
"""
import math

import mpmath as mp
import torch
from hypothesis import strategies as st

from ..core import Sub
from ..gens import DTYPES, EPS, fl, nested, seed_s
from ..oracles import stats as S

PROPERTY_ID = "C10"
mp.mp.dps = 40

DTS = [1 / 250, 1 / 50, 1 / 12, 0.1]
N_PATHS = {"quick": 200_000, "thorough": 2_000_000}
CHUNK_ELEMS = 2_000_000  # paths x steps (x jumps) per simulated chunk

ASSUMPTIONS = [
    "statistical assertions: |estimate - oracle| <= 6 SE (+ a stated a-priori allowance); SE from the sample through the "
    "influence function (fourth moments for variances, delta method for correlations); a failing statistic is re-estimated on "
    "an independent sample four times larger (seed = SHA-256 of the case) and only a repeated same-side failure is a violation",
    "price means are asserted directly only where the model's fourth moment is finite and the total log-variance is <= 1.5 "
    "(Kou: mean up-jump < 0.25; Heston: horizon <= half the 4th-moment explosion time; rough Bergomi: rho <= -0.87); outside, the "
    "same law is asserted in the log domain (log-mean, log-variance, standardised one-step residuals), which has all moments",
    "Heston spot given the variance path is compared with the documented Andersen central discretisation (gamma1=gamma2=1/2): "
    "standardised residual ~ N(0,1) and E[S_T/S_0 - conditional mean] = 0 are exact for every dt; the unconditional mean gets the "
    "design allowance 0.5 % plus |exp(D)-1|, D = analytic drift of the trapezoid rule applied to the exact CIR mean "
    "(zero when V0 = theta)",
    "Heston correlation: size asserted (0.05 + 6 SE) on the martingale parts of one-step log-returns and variance moves; on raw "
    "increments only for kappa*dt <= 0.1 (finite-interval increments mix in the O(kappa dt) mean-reversion drift); sign on raw increments",
    "CIR/Heston variance-of-variance asserted only for Feller ratio 2 kappa theta / sigma^2 >= 0.2 (DESIGN 3/C10); the mean everywhere",
    "rough Bergomi: forward-variance and log-variance law asserted only when (n_steps-1)*dt == 1 (known finding K2); the oracle "
    "for Var log V_t is the published hybrid scheme (kernel normalised by 1/dt), whose distance to eta^2 t^(2a+1) is reported",
    "float32 runs get the a-priori rounding allowance 8*n_steps*eps32*scale on every moment; Python-float dt that the code turns "
    "into a default-dtype tensor (local volatility) is compared at float32 resolution (DESIGN 2.1)",
    "rough-Bergomi eta is drawn in [0.3, eta_max(alpha, xi, dt, horizon)] with eta_max <= 2.5 such that the one-step variance V*dt stays "
    "below 30 at 6.5 sigma of log V (float64 spots cannot underflow to 0, so log S exists on every path)",
    "pathwise tolerance 8*n_steps*eps(dtype) relative to |x0| + |mu| t + sigma*sqrt(dt)*sum|Z_j| (log domain for exponentials)",
]


def _dtype(name):
    return None if name is None else DTYPES[name]


def _eps(name):
    return EPS[name or "float32"]  # dtype None -> global default float32


def time_idx(n_steps):
    """Step indices at which moments are asserted: first step, two interior points, horizon."""
    last = n_steps - 1
    return sorted({i for i in (1, last // 3, (2 * last) // 3, last) if i >= 1})


# ======================================================================================= pathwise
class EngineStub:
    """engine(*size, dtype=None, device=None) returning the normals of the case (fresh tensor per call)."""

    def __init__(self, by_size):
        self.by_size = by_size
        self.calls = []
        self.unknown = []

    def __call__(self, *size, dtype=None, device=None):
        if len(size) == 1 and isinstance(size[0], (tuple, list, torch.Size)):
            size = tuple(size[0])
        size = tuple(int(s) for s in size)
        self.calls.append(size)
        dt = dtype if dtype is not None else torch.get_default_dtype()
        data = self.by_size.get(size)
        if data is None:
            self.unknown.append(size)
            return torch.zeros(*size, dtype=dt, device=device)
        return torch.tensor(data, dtype=dt, device=device).reshape(size)


def _normals(dtype):
    w = dtype or "float32"
    return st.one_of(fl(-4.0, 4.0, w), fl(-1.0, 1.0, w), st.sampled_from([0.0, 1.0, -1.0, 0.5, -2.5, 6.0, -6.0]))


@st.composite
def pathwise_case(draw):
    fn = draw(st.sampled_from(["brownian", "geometric", "geometric", "merton0", "kou0"]))
    dtype = draw(st.sampled_from([None, "float32", "float64", "float64"]))
    n_paths, n_steps = draw(st.integers(1, 4)), draw(st.integers(1, 12))
    w = dtype or "float32"
    case = {"fn": fn, "dtype": dtype, "n_paths": n_paths, "n_steps": n_steps,
            "sigma": draw(st.one_of(fl(0.01, 2.0), st.sampled_from([0.2, 0.0, 1.0]))),
            "mu": draw(st.one_of(fl(-1.0, 1.0), st.sampled_from([0.0, 0.1]))),
            "dt": draw(st.one_of(st.sampled_from(DTS + [1 / 365, 1.0]), fl(1e-4, 0.5))),
            "z": draw(nested((n_paths, n_steps), _normals(dtype)))}
    if fn == "brownian":
        case["x0"] = draw(st.one_of(fl(-100.0, 100.0, w), st.sampled_from([0.0, 1.0])))
    else:
        case["x0"] = draw(st.one_of(fl(0.01, 100.0, w), st.sampled_from([1.0, 2.0])))
    case["init_form"] = draw(st.sampled_from(["tuple", "float", "tensor", "per_path", "per_path_bare"]))
    if case["init_form"].startswith("per_path"):
        # one start value per path: shape (n_paths, 1) (Kou also takes (n_paths,)), inside a tuple or bare
        el = fl(-100.0, 100.0, w) if fn == "brownian" else fl(0.01, 100.0, w)
        case["x0s"] = [draw(el) for _ in range(n_paths)]
        case["flat_state"] = fn == "kou0" and draw(st.booleans())
    if fn == "merton0":
        case["z_jump"] = draw(nested((n_paths, n_steps - 1), _normals(dtype)))
        case["jump_mean"] = draw(fl(-0.5, 0.5))
        case["jump_std"] = draw(fl(0.0, 0.5))
    if fn == "kou0":
        case["jump_mean_up"] = draw(fl(0.001, 0.9))
        case["jump_mean_down"] = draw(fl(0.001, 2.0))
        case["jump_up_prob"] = draw(fl(0.0, 1.0))
    return case


def check_pathwise(case, ctx):
    import pfhedge.stochastic as ps

    fn, dtype = case["fn"], case["dtype"]
    N, T = case["n_paths"], case["n_steps"]
    td = _dtype(dtype)
    eps = _eps(dtype)
    by_size = {(N, T): case["z"]}
    if fn == "merton0":
        by_size[(N, T - 1)] = case["z_jump"]
    stub = EngineStub(by_size)
    x0 = case["x0"]
    if case["init_form"] == "tuple":
        init = (x0,)
    elif case["init_form"] == "float":
        init = x0
    elif case["init_form"] == "tensor":
        init = torch.tensor(x0, dtype=td or torch.float32)
    else:
        init = torch.tensor(case["x0s"], dtype=td or torch.float32)
        init = init if case.get("flat_state") else init.reshape(-1, 1)
        if case["init_form"] == "per_path":
            init = (init,)
    x0_of = (lambda p: case["x0s"][p]) if case["init_form"].startswith("per_path") else (lambda p: x0)
    kw = dict(init_state=init, sigma=case["sigma"], mu=case["mu"], dt=case["dt"], dtype=td, engine=stub)
    label = "C10/pathwise/" + fn
    with ctx.sut(label):
        if fn == "brownian":
            out = ps.generate_brownian(N, T, **kw)
        elif fn == "geometric":
            out = ps.generate_geometric_brownian(N, T, **kw)
        elif fn == "merton0":
            out = ps.generate_merton_jump(N, T, jump_per_year=0.0, jump_mean=case["jump_mean"],
                                          jump_std=case["jump_std"], **kw)
        else:
            out = ps.generate_kou_jump(N, T, jump_per_year=0.0, jump_mean_up=case["jump_mean_up"],
                                       jump_mean_down=case["jump_mean_down"], jump_up_prob=case["jump_up_prob"], **kw)
    ctx.cls("fn:" + fn, "dtype:" + str(dtype), "T:" + ("1" if T == 1 else "2-4" if T <= 4 else "5-12"), "init:" + case["init_form"])
    ctx.nontrivial(T >= 3 and case["sigma"] > 0 and case["mu"] != 0.0 and x0 not in (0.0, 1.0))
    ctx.check(not stub.unknown and (N, T) in stub.calls, label + "/engine-call",
              f"engine called with sizes {stub.calls}, expected one call of {(N, T)} for the diffusion normals")
    want_dtype = td or torch.get_default_dtype()
    if not ctx.check(tuple(out.shape) == (N, T) and out.dtype == want_dtype, label + "/shape",
                     f"shape {tuple(out.shape)} dtype {out.dtype}, expected {(N, T)} {want_dtype}"):
        return
    sigma, mu, dt = mp.mpf(case["sigma"]), mp.mpf(case["mu"]), mp.mpf(case["dt"])
    sq = mp.sqrt(dt)
    tiny = float(torch.finfo(want_dtype).tiny)
    got = out.to(torch.float64).tolist()
    for p in range(N):
        w = mp.mpf(0)
        aw = mp.mpf(0)
        for i in range(T):
            if i >= 1:  # W(t_i) = sqrt(dt) * (Z_1 + ... + Z_i); the normal in column 0 belongs to t_0 and is unused
                w += mp.mpf(case["z"][p][i])
                aw += abs(mp.mpf(case["z"][p][i]))
            t = dt * i
            g = got[p][i]
            if fn == "brownian":
                want = mp.mpf(x0_of(p)) + mu * t + sigma * sq * w
                scale = abs(mp.mpf(x0_of(p))) + abs(mu) * t + sigma * sq * aw
                tol = 8 * T * eps * scale + 8 * T * tiny  # + underflow quantum of the dtype
            else:
                ex = (mu - sigma ** 2 / 2) * t + sigma * sq * w
                want = mp.mpf(x0_of(p)) * mp.exp(ex)
                scale = 1 + abs(mu) * t + sigma ** 2 * t / 2 + sigma * sq * aw
                tol = 8 * T * eps * scale * abs(want) + 8 * T * tiny
            if not (g == g) or abs(mp.mpf(g) - want) > tol:
                ctx.fail(label + "/value",
                         f"path {p} step {i}: got {g!r}, exact {float(want)!r}, err {float(abs(mp.mpf(g) - want)) if g == g else 'nan'} "
                         f"> tol {float(tol):.3e}", path=p, step=i, got=g, want=float(want))
                return


# ======================================================================================= engines
@st.composite
def engine_case(draw):
    kind = draw(st.sampled_from(["antithetic", "antithetic", "box_muller", "sobol", "antithetic_moments"]))
    dtype = draw(st.sampled_from([None, "float32", "float64"]))
    case = {"kind": kind, "dtype": dtype, "seed": draw(seed_s)}
    if kind == "antithetic":
        case.update(n=draw(st.integers(1, 12)), m=draw(st.integers(1, 5)), shuffle=draw(st.sampled_from([True, False, None])),
                    bad_dim=draw(st.sampled_from([None, None, None, 1])))
    elif kind == "antithetic_moments":
        case.update(n=draw(st.sampled_from([20000, 50001])), m=draw(st.integers(1, 3)), shuffle=draw(st.booleans()))
    elif kind == "box_muller":
        w = dtype or "float32"
        k = draw(st.integers(1, 8))
        u1 = st.one_of(fl(0.0, 1.0, w), fl(0.0, 1e-6, w), st.sampled_from([0.0, 1.0, 0.5]))
        u2 = st.one_of(fl(0.0, 1.0, w), st.sampled_from([0.0, 0.25, 0.5, 0.75, 0.125]))
        case.update(u1=draw(nested((k,), u1)), u2=draw(nested((k,), u2)),
                    epsilon=draw(st.sampled_from([None, None, 1e-10, 1e-6, 1e-3])))
    else:
        case.update(n=draw(st.sampled_from([1, 2, 3, 7, 64, 1000, 4096, 20001])), m=draw(st.integers(1, 3)),
                    scramble=draw(st.booleans()), seed_arg=draw(st.booleans()))
    return case


def _rows(t):
    return sorted(tuple(r) for r in t.to(torch.float64).reshape(t.shape[0], -1).tolist())


def _box_muller_mp(u1, u2, epsilon):
    r = mp.sqrt(-2 * mp.log(max(mp.mpf(u1), mp.mpf(epsilon))))
    a = 2 * mp.pi * mp.mpf(u2)
    return r * mp.cos(a), r * mp.sin(a), r


def _compare_box_muller(ctx, label, z0, z1, u1, u2, epsilon, eps):
    for j in range(len(u1)):
        w0, w1, r = _box_muller_mp(u1[j], u2[j], epsilon)
        # angle 2*pi*u2 carries a rounding error <= 2 eps * 2 pi; radius 4 eps relative
        tol = float(r) * (8 * eps * 2 * math.pi) + 8 * eps * float(r) + 1e-300
        for name, g, w in (("cos", z0[j], w0), ("sin", z1[j], w1)):
            if not (g == g) or abs(mp.mpf(g) - w) > tol:
                ctx.fail(label, f"element {j} ({name} branch): got {g!r}, formula {float(w)!r} for u1={u1[j]!r} u2={u2[j]!r}",
                         u1=u1[j], u2=u2[j], got=g, want=float(w))
                return False
    return True


def check_engines(case, ctx):
    from pfhedge.nn.functional import box_muller
    from pfhedge.stochastic import randn_antithetic, randn_sobol_boxmuller

    kind, dtype = case["kind"], case["dtype"]
    td = _dtype(dtype)
    want_dtype = td or torch.get_default_dtype()
    eps = _eps(dtype)
    ctx.cls("kind:" + kind, "dtype:" + str(dtype))
    if kind == "antithetic":
        n, m = case["n"], case["m"]
        if case["bad_dim"] is not None:
            ctx.expect_raises("C10/antithetic/dim-accepted", (ValueError,),
                              lambda: randn_antithetic(n, m, dtype=td, dim=case["bad_dim"]))
            ctx.cls("antithetic:dim!=0")
            return
        kw = {} if case["shuffle"] is None else {"shuffle": case["shuffle"]}
        shuffled = case["shuffle"] is not False  # documented default: shuffle=True
        h = -(-n // 2)
        with ctx.sut("C10/antithetic"):
            torch.manual_seed(case["seed"])
            out = randn_antithetic(n, m, dtype=td, **kw)
            torch.manual_seed(case["seed"])
            full_plain = randn_antithetic(2 * h, m, dtype=td, shuffle=False)
        ctx.nontrivial(n >= 2)
        ctx.cls("antithetic:" + ("shuffled" if shuffled else "plain") + ("/odd" if n % 2 else "/even"))
        if not ctx.check(tuple(out.shape) == (n, m) and out.dtype == want_dtype, "C10/antithetic/shape",
                         f"shape {tuple(out.shape)} dtype {out.dtype}, expected {(n, m)} {want_dtype}"):
            return
        # the un-shuffled even-sized sample is (Z, -Z)
        ctx.check(torch.equal(full_plain[h:], -full_plain[:h]), "C10/antithetic/pairs-cancel",
                  "second half of the un-shuffled sample is not the negation of the first half")
        ctx.check(bool((full_plain[:h] != 0).any()) or h == 0, "C10/antithetic/degenerate", "sample is identically zero")
        if not shuffled:
            ctx.check(torch.equal(out, full_plain[:n]), "C10/antithetic/prefix",
                      "shuffle=False with odd size is not the prefix of the paired sample")
        else:
            # shuffle is a permutation of whole rows of the paired sample (then truncated to n rows)
            pool = _rows(full_plain)
            mine = _rows(out)
            import collections

            miss = collections.Counter(mine) - collections.Counter(pool)
            ctx.check(not miss, "C10/antithetic/shuffle-permutation",
                      f"{sum(miss.values())} shuffled rows are not rows of the paired sample (Z, -Z)")
            if n % 2 == 0:
                neg = _rows(-out)
                ctx.check(mine == neg, "C10/antithetic/pairs-cancel", "shuffled sample is not closed under negation")
                colsum = out.to(torch.float64).sum(0).abs().max().item()
                bound = 4 * n * eps * max(1.0, out.abs().max().item())
                ctx.check(colsum <= bound, "C10/antithetic/pairs-cancel", f"column sums {colsum:.3e} do not cancel")
        return
    if kind == "antithetic_moments":
        n, m = case["n"], case["m"]
        h = -(-n // 2)

        def simulate(seed, scale):
            torch.manual_seed(seed)
            with ctx.sut("C10/antithetic"):
                out = randn_antithetic(n * scale, m, dtype=td, shuffle=case["shuffle"])
            x = out.to(torch.float64)
            k = x.shape[0]
            res = []
            # rows come in +/- pairs: the squares of one half are an i.i.d. chi-square sample only without shuffling, so the
            # variance statistic uses all rows with the sample size halved (each |value| appears twice)
            sq = (x * x).reshape(-1)
            est = float(sq.mean())
            se = float(sq.std()) / math.sqrt(sq.numel() / 2)
            res.append(S.Stat("C10/antithetic/variance", "E[Z^2]", est, se, 1.0, 8 * eps, sq.numel() // 2))
            fourth = (sq * sq)
            res.append(S.Stat("C10/antithetic/kurtosis", "E[Z^4]", float(fourth.mean()),
                              float(fourth.std()) / math.sqrt(fourth.numel() / 2), 3.0, 64 * eps, sq.numel() // 2))
            if k % 2 == 0:
                cs = x.sum(0).abs().max().item()
                if cs > 4 * k * eps * 8.0:
                    res.append(S.Stat("C10/antithetic/pairs-cancel", "column sum", cs, 0.0, 0.0, 4 * k * eps * 8.0, k))
            return res

        S.retest(ctx, case, lambda seed, npaths: simulate(seed, npaths), case["seed"], 1)
        ctx.nontrivial(True)
        return
    if kind == "box_muller":
        u1, u2 = case["u1"], case["u2"]
        epsilon = case["epsilon"]
        kw = {} if epsilon is None else {"epsilon": epsilon}
        t1 = torch.tensor(u1, dtype=want_dtype)
        t2 = torch.tensor(u2, dtype=want_dtype)
        with ctx.sut("C10/box_muller"):
            z0, z1 = box_muller(t1, t2, **kw)
        eff = 1e-10 if epsilon is None else epsilon  # documented default
        eff = float(torch.tensor(eff, dtype=want_dtype))  # clamp(min=epsilon) happens in the tensor dtype
        _compare_box_muller(ctx, "C10/box_muller/formula", z0.tolist(), z1.tolist(), u1, u2, eff, eps)
        ctx.nontrivial(any(0 < a < 1 for a in u1) and any(b not in (0.0, 0.5) for b in u2))
        if any(a < eff for a in u1):
            ctx.cls("box_muller:clamped")
        return
    # sobol + box-muller engine
    from torch.quasirandom import SobolEngine

    n, m = case["n"], case["m"]
    seed = case["seed"] if case["seed_arg"] else None
    with ctx.sut("C10/sobol"):
        torch.manual_seed(case["seed"])
        out = randn_sobol_boxmuller(n, m, dtype=td, scramble=case["scramble"], seed=seed)
    if not ctx.check(tuple(out.shape) == (n, m) and out.dtype == want_dtype, "C10/sobol/shape",
                     f"shape {tuple(out.shape)} dtype {out.dtype}, expected {(n, m)} {want_dtype}"):
        return
    ctx.check(bool(torch.isfinite(out).all()), "C10/sobol/finite", "non-finite normal")
    ctx.nontrivial(n * m >= 64)
    ctx.cls("sobol:scramble=%s" % case["scramble"], "sobol:n=%s" % ("small" if n * m < 64 else "large"))
    numel = n * m
    # the documented pipeline: numel//2+1 two-dimensional Sobol points -> Box-Muller -> (cos block, sin block)[:numel]
    torch.manual_seed(case["seed"])
    pts = SobolEngine(2, scramble=case["scramble"], seed=seed).draw(numel // 2 + 1).to(want_dtype)
    flat = out.reshape(-1).tolist()
    k = pts.shape[0]
    idx = sorted(set(list(range(min(numel, 6))) + [numel // 3, numel // 2, (2 * numel) // 3, numel - 1]))
    eff = float(torch.tensor(1e-10, dtype=want_dtype))
    for j in idx:
        src = j if j < k else j - k
        w0, w1, r = _box_muller_mp(pts[src, 0].item(), pts[src, 1].item(), eff)
        want = w0 if j < k else w1
        tol = float(r) * (8 * eps * 2 * math.pi) + 8 * eps * float(r) + 1e-300
        if abs(mp.mpf(flat[j]) - want) > tol:
            ctx.fail("C10/sobol/formula", f"element {j}: got {flat[j]!r}, Box-Muller of Sobol point {src} gives {float(want)!r}")
            break
    if numel >= 1000:
        x = out.reshape(-1).to(torch.float64)
        # (randomised) quasi-Monte-Carlo integrates smooth moments at least as accurately as i.i.d. sampling: the i.i.d. bound is used
        mean, var = float(x.mean()), float(x.var())
        ctx.check(abs(mean) <= S.Z / math.sqrt(numel), "C10/sobol/mean", f"mean {mean:.4e} beyond 6/sqrt(n), n={numel}")
        ctx.check(abs(var - 1) <= S.Z * math.sqrt(2 / numel), "C10/sobol/variance", f"variance {var:.5f} beyond 1 +- 6*sqrt(2/n), n={numel}")


# ======================================================================================= distributional: shared
MIN_JUMP_EVENTS = 4000  # expected number of jump events in the sample below which jump moments are not asserted
MAX_LOGVAR_FOR_MEAN = 1.5  # the mean of exp(X) is asserted directly only for Var X <= 1.5 (sample SE reliable)


def _chunks(n, elems_per_path):
    return S.chunks(n, max(500, CHUNK_ELEMS // max(1, int(elems_per_path))))


def _rounding(dtype, n_steps, scale):
    return 8 * n_steps * _eps(dtype) * scale


def _n_paths(tier):
    return st.just(N_PATHS[tier])


def _bucket(x, edges, fmt="%g"):
    for e in edges:
        if x <= e:
            return "<=" + fmt % e
    return ">" + fmt % edges[-1]


# ======================================================================================= diffusion family
@st.composite
def diffusion_case(draw, tier):
    model = draw(st.sampled_from(["brownian", "gbm", "gbm", "merton", "merton", "kou", "kou"]))
    dt = draw(st.sampled_from(DTS))
    case = {"model": model, "dt": dt, "seed": draw(seed_s), "n_paths": N_PATHS[tier],
            "sigma": draw(st.one_of(fl(0.02, 0.8), fl(0.05, 0.4))),
            "mu": draw(st.one_of(fl(-0.3, 0.3), st.sampled_from([0.0, 0.1])))}
    if model in ("brownian", "gbm"):
        case["dtype"] = draw(st.sampled_from(["float64", "float64", "float32", None]))
        case["n_steps"] = draw(st.integers(2, 60))
    else:
        case["dtype"] = "float64"
        case["n_steps"] = draw(st.integers(2, 40 if model == "merton" else 24))
    if model == "brownian":
        case["x0"] = draw(st.one_of(fl(-2.0, 2.0), st.sampled_from([0.0, 0.5])))
    else:
        case["x0"] = draw(st.one_of(fl(0.3, 30.0), st.sampled_from([1.0, 2.0, 100.0])))
    if model == "merton":
        case["lam"] = draw(st.one_of(fl(1.0, 100.0), fl(1.0, 20.0), fl(20.0, 100.0), fl(0.05, 5.0), st.just(0.0)))
        case["jump_mean"] = draw(st.one_of(fl(-0.3, 0.3), fl(-0.05, 0.05)))
        case["jump_std"] = draw(st.one_of(fl(0.001, 0.3), fl(0.001, 0.05)))
    if model == "kou":
        hi = min(100.0, 1.5 / dt)
        case["lam"] = draw(st.one_of(fl(1.0, hi), fl(hi / 4, hi), fl(0.05, 5.0), fl(1.0, hi), st.just(0.0)))
        case["up"] = draw(st.one_of(fl(0.005, 0.9), fl(0.005, 0.2), fl(0.005, 0.05)))
        case["down"] = draw(st.one_of(fl(0.005, 1.0), fl(0.005, 0.1)))
        case["p"] = draw(st.one_of(fl(0.0, 1.0), st.sampled_from([0.0, 1.0, 0.5, 0.3])))
    return case


def jump_moments(case):
    """(lambda, E[J], E[J^2], E[e^J]-1, finite-4th-moment flag) of the log-jump size J, from the documented parameterisation:
    Merton J ~ N(jump_mean, jump_std^2); Kou J = +Exp(mean jump_mean_up) w.p. p, -Exp(mean jump_mean_down) otherwise."""
    m = case["model"]
    if m == "merton":
        a, s = case["jump_mean"], case["jump_std"]
        return case["lam"], a, a * a + s * s, math.expm1(a + s * s / 2), True
    if m == "kou":
        u, d, p = case["up"], case["down"], case["p"]
        ej = p * u - (1 - p) * d
        ej2 = 2 * p * u * u + 2 * (1 - p) * d * d
        # E[e^J] = p/(1-u) + (1-p)/(1+d)   (eta_u/(eta_u-1) with eta_u = 1/u)
        k = p * (1.0 / (1.0 - u) - 1.0) + (1 - p) * (1.0 / (1.0 + d) - 1.0)
        return case["lam"], ej, ej2, k, (u < 0.25 or p == 0.0)
    return 0.0, 0.0, 0.0, 0.0, True


def check_diffusion(case, ctx):
    import pfhedge.stochastic as ps

    model, dt, T = case["model"], case["dt"], case["n_steps"]
    dtype = case["dtype"]
    td = _dtype(dtype)
    sigma, mu, x0 = case["sigma"], case["mu"], case["x0"]
    idx = time_idx(T)
    lam, ej, ej2, kcomp, finite4 = jump_moments(case)
    pre = "C10/" + model

    def call(m):
        if model == "brownian":
            return ps.generate_brownian(m, T, init_state=(x0,), sigma=sigma, mu=mu, dt=dt, dtype=td)
        if model == "gbm":
            return ps.generate_geometric_brownian(m, T, init_state=(x0,), sigma=sigma, mu=mu, dt=dt, dtype=td)
        if model == "merton":
            return ps.generate_merton_jump(m, T, init_state=(x0,), sigma=sigma, mu=mu, jump_per_year=lam,
                                           jump_mean=case["jump_mean"], jump_std=case["jump_std"], dt=dt, dtype=td)
        return ps.generate_kou_jump(m, T, init_state=(x0,), sigma=sigma, mu=mu, jump_per_year=lam,
                                    jump_mean_up=case["up"], jump_mean_down=case["down"], jump_up_prob=case["p"],
                                    dt=dt, dtype=td)

    per_path = T
    if model == "kou":
        r = lam * dt
        per_path = T * (r + 8 * math.sqrt(r) + 10) * 4

    def simulate(seed, n):
        torch.manual_seed(seed)
        cols = []
        for m in _chunks(n, per_path):
            with ctx.sut(pre):
                out = call(m)
            cols.append(out[:, idx].to(torch.float64))
        x = torch.cat(cols)
        res = []
        for j, i in enumerate(idx):
            t = i * dt
            info = {"t": t, "step": i}
            if model == "brownian":
                rd = _rounding(dtype, T, abs(x0) + abs(mu) * t + 6 * sigma * math.sqrt(t))
                res.append(S.mean_stat(pre + "/mean", f"E[X_t] t={t:.4g}", x[:, j], x0 + mu * t, rd, info))
                res.append(S.var_stat(pre + "/variance", f"Var[X_t] t={t:.4g}", x[:, j], sigma ** 2 * t,
                                      2 * sigma * math.sqrt(t) * rd + rd * rd, info))
                continue
            lv = sigma ** 2 * t + lam * t * ej2
            lm = (mu - sigma ** 2 / 2 - lam * kcomp) * t + lam * t * ej
            rd = _rounding(dtype, T, 1 + abs(mu) * t + sigma ** 2 * t / 2 + 6 * sigma * math.sqrt(t))
            ratio = x[:, j] / x0
            if lam == 0.0 or n * lam * t >= MIN_JUMP_EVENTS:
                lg = ratio.log()
                res.append(S.mean_stat(pre + "/log-mean", f"E[log S_t/S_0] t={t:.4g}", lg, lm, rd, info))
                res.append(S.var_stat(pre + "/log-variance", f"Var[log S_t] t={t:.4g}", lg, lv,
                                      2 * math.sqrt(lv) * rd + rd * rd, info))
                if finite4 and lv <= MAX_LOGVAR_FOR_MEAN:
                    res.append(S.mean_stat(pre + "/mean", f"E[S_t/S_0] t={t:.4g}", ratio, math.exp(mu * t),
                                           math.exp(mu * t) * 2 * rd, info))
        return res

    # exclusions are a function of the case only (counted once, on the nominal sample size)
    n0 = case["n_paths"]
    live_mean = 0
    for i in idx:
        t = i * dt
        if model == "brownian":
            continue
        if not (lam == 0.0 or n0 * lam * t >= MIN_JUMP_EVENTS):
            ctx.exclude("rare-jumps(expected events < %d): jump moments not asserted" % MIN_JUMP_EVENTS)
        elif not finite4:
            ctx.exclude("kou-mean-up>=0.25: price mean has no finite 4th moment, asserted in the log domain only")
        elif sigma ** 2 * t + lam * t * ej2 > MAX_LOGVAR_FOR_MEAN:
            ctx.exclude("log-variance>1.5: price mean asserted in the log domain only")
        else:
            live_mean += 1
    S.retest(ctx, case, simulate, case["seed"], n0)
    defaults = {"brownian": (0.2, 0.0), "gbm": (0.2, 0.0), "merton": (0.2, 0.0), "kou": (0.2, 0.0)}[model]
    ndiff = (sigma != defaults[0]) + (mu != defaults[1]) + (dt != 1 / 250) + (T != 21)
    if model == "merton":
        ndiff += (lam != 68.2) + (case["jump_mean"] != 0.0) + (case["jump_std"] != 0.02)
    if model == "kou":
        ndiff += (lam != 68.0) + (case["up"] != 0.02) + (case["down"] != 0.05) + (case["p"] != 0.5)
    ctx.nontrivial(ndiff >= 2 and x0 != (0.0 if model == "brownian" else 1.0))
    ctx.cls("model:" + model, "dtype:" + str(dtype), "dt:%.4g" % dt, "horizon:" + _bucket((T - 1) * dt, [0.1, 0.5, 1, 2, 6]),
            "mu:" + ("0" if mu == 0 else "+" if mu > 0 else "-"))
    if model in ("merton", "kou"):
        ctx.cls(model + ":lambda" + ("=0" if lam == 0 else _bucket(lam, [1, 10, 50, 100])),
                model + ":price-mean-live-times=%d" % live_mean)
    if model == "kou":
        ctx.cls("kou:p" + ("=0" if case["p"] == 0 else "=1" if case["p"] == 1 else "in(0,1)"),
                "kou:up" + _bucket(case["up"], [0.05, 0.25, 0.5, 0.9]))


# ======================================================================================= mean-reverting family
def mr_mean(x0, kappa, theta, t):
    return theta + (x0 - theta) * math.exp(-kappa * t)


def cir_var(x0, kappa, theta, sigma, t):
    e = math.exp(-kappa * t)
    return x0 * sigma ** 2 / kappa * (e - e * e) + theta * sigma ** 2 / (2 * kappa) * (1 - e) ** 2


def ou_var(kappa, sigma, t):
    return sigma ** 2 * (-math.expm1(-2 * kappa * t)) / (2 * kappa)


def qe_psi(v, kappa, theta, sigma, dt):
    """psi = s^2/m^2 of Andersen's QE scheme (eqs 17-19) for a tensor of current values (class counter only)."""
    e = math.exp(-kappa * dt)
    m = theta + (v - theta) * e
    s2 = v * sigma ** 2 * e * (1 - e) / kappa + theta * sigma ** 2 * (1 - e) ** 2 / (2 * kappa)
    return s2 / (m * m).clamp(min=1e-300)


FELLER_MIN_FOR_VARIANCE = 0.2


@st.composite
def cir_params(draw, regime=None):
    """kappa, theta, sigma over the admissible ranges; `regime` forces the QE branch mix through the Feller ratio."""
    regime = regime or draw(st.sampled_from(["any", "any", "quadratic", "exponential"]))
    kappa = draw(st.one_of(fl(0.2, 4.0), fl(0.5, 2.0)))
    theta = draw(st.one_of(fl(0.01, 0.2), fl(0.02, 0.09)))
    if regime == "quadratic":  # Feller ratio >= 2  -> psi <= 1.5 on (almost) every step
        hi = math.sqrt(2 * kappa * theta / 2.0)
        sigma = draw(fl(min(0.02, hi / 2), hi))
    elif regime == "exponential":  # Feller ratio <= 0.3 -> psi > 1.5 whenever the state is below theta
        kappa, theta = min(kappa, 1.5), min(theta, 0.08)  # keeps the vol-of-vol needed for that inside (0, 1]
        lo = math.sqrt(2 * kappa * theta / 0.3)
        sigma = draw(fl(lo, 1.0))
    else:
        sigma = draw(fl(0.05, 1.0))
    return {"kappa": kappa, "theta": theta, "sigma": sigma, "regime": regime}


@st.composite
def meanrev_case(draw, tier):
    model = draw(st.sampled_from(["cir", "cir", "vasicek"]))
    dt = draw(st.sampled_from(DTS))
    case = {"model": model, "dt": dt, "seed": draw(seed_s), "n_paths": N_PATHS[tier], "n_steps": draw(st.integers(2, 50))}
    if model == "cir":
        case.update(draw(cir_params()))
        case["dtype"] = draw(st.sampled_from(["float64", "float64", "float64", "float32"]))
        th = case["theta"]
        case["start"] = draw(st.sampled_from(["default", "theta", "zero", "low", "high", "any"]))
        case["x0"] = {"default": None, "theta": th, "zero": 0.0, "low": draw(fl(0.001, 0.5)) * th,
                      "high": th * draw(fl(2.0, 10.0)), "any": draw(fl(0.0005, 0.5))}[case["start"]]
    else:
        # incl. strong mean reversion over a long horizon (kappa * horizon up to the hundreds)
        case["kappa"] = draw(st.one_of(fl(0.05, 5.0), fl(0.5, 2.0), st.sampled_from([20.0, 100.0, 300.0])))
        case["theta"] = draw(st.one_of(fl(-0.1, 0.3), st.sampled_from([0.0, 0.04])))
        case["sigma"] = draw(st.one_of(fl(0.002, 0.3), fl(0.01, 0.05)))
        case["dtype"] = draw(st.sampled_from(["float64", "float64", "float32", "float32", None]))
        th = case["theta"]
        case["start"] = draw(st.sampled_from(["default", "theta", "zero", "zero", "negative", "any", "any"]))
        case["x0"] = {"default": None, "theta": th, "zero": 0.0, "negative": -draw(fl(0.001, 0.2)),
                      "any": draw(fl(-0.2, 0.5))}[case["start"]]
    case["init_form"] = draw(st.sampled_from(["tuple", "tuple", "bare", "tensor", "bare_tensor"]))
    return case


def check_meanrev(case, ctx):
    import pfhedge.stochastic as ps

    model, dt, T, dtype = case["model"], case["dt"], case["n_steps"], case["dtype"]
    td = _dtype(dtype)
    kappa, theta, sigma = case["kappa"], case["theta"], case["sigma"]
    x0 = case["x0"]
    start = theta if x0 is None else x0  # documented default: init_state = (theta,)
    form = case.get("init_form", "tuple")  # the state in a tuple, or bare (as cast_state documents), as a float or a 0-dim tensor
    init = None if x0 is None else {"tuple": (x0,), "bare": x0, "tensor": (torch.tensor(x0, dtype=torch.float64),),
                                    "bare_tensor": torch.tensor(x0, dtype=torch.float64)}[form]
    idx = time_idx(T)
    pre = "C10/" + model
    gen = ps.generate_cir if model == "cir" else ps.generate_vasicek
    feller = 2 * kappa * theta / sigma ** 2 if model == "cir" else math.inf
    psi_seen = {}

    def simulate(seed, n):
        torch.manual_seed(seed)
        cols = []
        for c, m in enumerate(_chunks(n, T * 4)):
            with ctx.sut(pre):
                out = gen(m, T, init_state=init, kappa=kappa, theta=theta, sigma=sigma, dt=dt, dtype=td)
            if model == "cir" and c == 0 and not psi_seen:
                psi = qe_psi(out[:20000, :-1].to(torch.float64), kappa, theta, sigma, dt)
                psi_seen["frac"] = float((psi > 1.5).double().mean())
            cols.append(out[:, idx].to(torch.float64))
        x = torch.cat(cols)
        res = []
        for j, i in enumerate(idx):
            t = i * dt
            info = {"t": t, "step": i, "feller": feller}
            mean = mr_mean(start, kappa, theta, t)
            var = cir_var(start, kappa, theta, sigma, t) if model == "cir" else ou_var(kappa, sigma, t)
            rd = _rounding(dtype, T, abs(start) + abs(theta) + 6 * math.sqrt(var))
            res.append(S.mean_stat(pre + "/mean", f"E[X_t] t={t:.4g}", x[:, j], mean, rd, info))
            if feller >= FELLER_MIN_FOR_VARIANCE:
                res.append(S.var_stat(pre + "/variance", f"Var[X_t] t={t:.4g}", x[:, j], var,
                                      2 * math.sqrt(var) * rd + rd * rd, info))
        return res

    S.retest(ctx, case, simulate, case["seed"], case["n_paths"])
    if model == "cir":
        if feller < FELLER_MIN_FOR_VARIANCE:
            ctx.exclude("cir-variance at Feller ratio < 0.2 (mean asserted)", len(idx))
        f = psi_seen.get("frac", 0.0)
        ctx.cls("cir:psi>1.5-steps:" + ("none" if f == 0 else _bucket(f, [0.1, 0.5, 0.9, 1.0])),
                "cir:feller" + _bucket(feller, [0.05, 0.2, 1, 2, 10]), "cir:regime=" + case["regime"])
        ndiff = (kappa != 1.0) + (theta != 0.04) + (sigma != 0.2) + (dt != 1 / 250)
    else:
        ndiff = (kappa != 1.0) + (theta != 0.04) + (sigma != 0.04) + (dt != 1 / 250)
    ctx.nontrivial(ndiff >= 2 and x0 is not None and x0 != theta)
    ctx.cls("model:" + model, "dtype:" + str(dtype), "dt:%.4g" % dt, "start:" + case["start"],
            "kappa*T:" + _bucket(kappa * (T - 1) * dt, [0.1, 1, 5]))


# ======================================================================================= Heston
def heston_explosion_time(kappa, sigma, rho, omega):
    """Time at which E[S_t^omega] becomes infinite in the Heston model (Riccati equation
    psi' = sigma^2/2 psi^2 + (rho sigma omega - kappa) psi + (omega^2-omega)/2, psi(0)=0); inf if it never does."""
    a, b, c = 0.5 * (omega * omega - omega), rho * sigma * omega - kappa, 0.5 * sigma * sigma
    disc = b * b - 4 * a * c
    if disc >= 0:
        if b <= 0:
            return math.inf
        sq = math.sqrt(disc)
        return math.log((b + sq) / (b - sq)) / sq if sq > 0 else 2.0 / b
    sq = math.sqrt(-disc)
    if b == 0:
        return math.pi / sq
    return 2.0 / sq * (math.atan(sq / b) + (math.pi if b < 0 else 0.0))


def heston_trapezoid_drift(kappa, theta, sigma, rho, v0, dt, n_steps):
    """D = (rho kappa/sigma) * (sum_i trapezoid(E V) - int_0^T E V_t dt) with the exact CIR mean E V_t: the deterministic drift that
    the documented central discretisation of int V dt adds to log E[S_T/S_0] (zero for V0 = theta, O(dt^2))."""
    e = math.exp(-kappa * dt)
    horizon = (n_steps - 1) * dt
    per_step = dt * (1 + e) / 2 - (1 - e) / kappa
    return (rho * kappa / sigma) * (v0 - theta) * per_step * (-math.expm1(-kappa * horizon)) / (1 - e)


@st.composite
def heston_case(draw, tier):
    case = {"dt": draw(st.sampled_from(DTS)), "seed": draw(seed_s), "n_paths": N_PATHS[tier],
            "n_steps": draw(st.integers(3, 36))}
    case.update(draw(cir_params()))
    case["rho"] = draw(st.one_of(fl(-0.95, -0.1), fl(0.1, 0.95), fl(-0.95, -0.3), st.sampled_from([-0.7, 0.0, 0.5, 0.05])))
    th = case["theta"]
    case["start"] = draw(st.sampled_from(["default", "theta", "zero", "low", "high", "any", "any"]))
    if case["start"] == "default":
        case["s0"], case["v0"] = None, None
    else:
        case["s0"] = draw(st.one_of(fl(0.3, 30.0), st.sampled_from([1.0, 100.0])))
        case["v0"] = {"theta": th, "zero": 0.0, "low": draw(fl(0.001, 0.5)) * th, "high": th * draw(fl(2.0, 8.0)),
                      "any": draw(fl(0.001, 0.4))}[case["start"]]
    return case


def _one_sided(label, name, value, se, n, info):
    """Passes iff value >= -6 SE."""
    return S.Stat(label, name, min(value, 0.0), se, 0.0, 0.0, n, 0.0, info)


def check_heston(case, ctx):
    import pfhedge.stochastic as ps

    dt, T = case["dt"], case["n_steps"]
    kappa, theta, sigma, rho = case["kappa"], case["theta"], case["sigma"], case["rho"]
    s0 = 1.0 if case["s0"] is None else case["s0"]
    v0 = theta if case["v0"] is None else case["v0"]
    init = None if case["s0"] is None else (case["s0"], case["v0"])
    idx = time_idx(T)
    steps = sorted({0, (T - 2) // 2, T - 2})
    feller = 2 * kappa * theta / sigma ** 2
    horizon = (T - 1) * dt
    t_star = heston_explosion_time(kappa, sigma, rho, 4.0)
    int_var = theta * horizon + (v0 - theta) * (-math.expm1(-kappa * horizon)) / kappa
    mean_live = horizon <= 0.5 * t_star and int_var <= MAX_LOGVAR_FOR_MEAN
    drift = heston_trapezoid_drift(kappa, theta, sigma, rho, v0, dt, T)
    raw_size_live = kappa * dt <= 0.1
    sgn = 1.0 if rho > 0 else -1.0
    pre = "C10/heston"
    psi_seen = {}

    def simulate(seed, n):
        torch.manual_seed(seed)
        vcols, ratio, cond, per_step = [], [], [], {i: [] for i in steps}
        for c, m in enumerate(_chunks(n, T * 10)):
            with ctx.sut(pre):
                out = ps.generate_heston(m, T, init_state=init, kappa=kappa, theta=theta, sigma=sigma, rho=rho, dt=dt,
                                         dtype=torch.float64)
            spot, v = out.spot, out.variance
            if c == 0 and not psi_seen:
                psi_seen["frac"] = float((qe_psi(v[:20000, :-1], kappa, theta, sigma, dt) > 1.5).double().mean())
                # spot[:, 0] = exp(log(S0)): two elementary functions, error amplified by |log S0|
                psi_seen["init_ok"] = (bool(((spot[:, 0] - s0).abs() <= (4 + 2 * abs(math.log(s0))) * EPS["float64"] * s0).all())
                                       and bool((v[:, 0] == v0).all()))
            ls = spot.log()
            integ = 0.5 * dt * (v[:, :-1] + v[:, 1:])  # trapezoid rule for int V dt per step (gamma1 = gamma2 = 1/2)
            mart_v = v[:, 1:] - v[:, :-1] - kappa * theta * dt + kappa * integ  # = sigma * int sqrt(V) dW_2 (discretised)
            cond.append(((rho / sigma) * mart_v - 0.5 * rho * rho * integ).sum(1).exp())
            ratio.append(spot[:, -1] / s0)
            vcols.append(v[:, idx])
            for i in steps:
                per_step[i].append(torch.stack([ls[:, i + 1] - ls[:, i], v[:, i + 1] - v[:, i], integ[:, i], mart_v[:, i]], 1))
        vv, ratio, cond = torch.cat(vcols), torch.cat(ratio), torch.cat(cond)
        res = []
        for j, i in enumerate(idx):
            t = i * dt
            info = {"t": t, "step": i, "feller": feller}
            res.append(S.mean_stat(pre + "/variance-mean", f"E[V_t] t={t:.4g}", vv[:, j], mr_mean(v0, kappa, theta, t), 0.0, info))
            if feller >= FELLER_MIN_FOR_VARIANCE:
                res.append(S.var_stat(pre + "/variance-variance", f"Var[V_t] t={t:.4g}", vv[:, j],
                                      cir_var(v0, kappa, theta, sigma, t), 0.0, info))
        for i in steps:
            a = torch.cat(per_step[i])
            dl, dv, integ, mart_v = a[:, 0], a[:, 1], a[:, 2], a[:, 3]
            info = {"step": i, "rho": rho}
            pos = integ > 1e-18 * dt  # a condition on the variance path only (independent of the spot normal)
            if int(pos.sum()) >= 2000:
                z = (dl[pos] - (rho / sigma) * mart_v[pos] + 0.5 * integ[pos]) / ((1 - rho * rho) * integ[pos]).sqrt()
                res.append(S.mean_stat(pre + "/residual-mean", f"E[z_{i}] (standardised log-return given the variance path)", z, 0.0, 1e-9, info))
                res.append(S.var_stat(pre + "/residual-variance", f"Var[z_{i}]", z, 1.0, 1e-9, info))
            mart_s = dl + 0.5 * integ
            cm = S.corr_stat(pre + "/corr-size", f"corr(martingale parts of dlogS_{i}, dV_{i})", mart_s, mart_v, rho, 0.05, info)
            res.append(cm)
            cr = S.corr_stat(pre + "/corr-raw", f"corr(dlogS_{i}, dV_{i})", dl, dv, rho, 0.05, info)
            if raw_size_live:
                res.append(cr)
            if abs(rho) >= 0.1:
                res.append(_one_sided(pre + "/corr-sign", f"sign(rho)*corr(dlogS_{i}, dV_{i})", cr.est * sgn, cr.se, cr.n, info))
        if mean_live:
            info = {"horizon": horizon, "trapezoid_drift": drift, "explosion_time_4th_moment": t_star}
            res.append(S.mean_stat(pre + "/spot-given-variance", "E[S_T/S_0 - E(S_T/S_0 | variance path)]", ratio - cond, 0.0, 1e-12, info))
            res.append(S.mean_stat(pre + "/spot-mean", "E[S_T/S_0]", ratio, 1.0, 0.005 + abs(math.expm1(drift)), info))
        return res

    S.retest(ctx, case, simulate, case["seed"], case["n_paths"])
    ctx.check(psi_seen.get("init_ok", True), pre + "/initial-state", f"column 0 is not the requested state ({s0}, {v0})")
    if feller < FELLER_MIN_FOR_VARIANCE:
        ctx.exclude("heston variance-of-variance at Feller ratio < 0.2 (mean asserted)", len(idx))
    if not mean_live:
        ctx.exclude("heston spot mean: 4th moment explodes before 2x horizon or integrated variance > 1.5 (log-domain residuals asserted)")
    if not raw_size_live:
        ctx.exclude("heston raw-increment correlation size at kappa*dt > 0.1 (martingale-part correlation asserted)", len(steps))
    if abs(rho) < 0.1:
        ctx.exclude("heston correlation sign at |rho| < 0.1", len(steps))
    f = psi_seen.get("frac", 0.0)
    ndiff = (kappa != 1.0) + (theta != 0.04) + (sigma != 0.2) + (rho != -0.7) + (dt != 1 / 250)
    ctx.nontrivial(ndiff >= 2 and case["s0"] is not None and (s0 != 1.0 or v0 != theta))
    ctx.cls("heston:psi>1.5-steps:" + ("none" if f == 0 else _bucket(f, [0.1, 0.5, 0.9, 1.0])),
            "heston:feller" + _bucket(feller, [0.05, 0.2, 1, 2, 10]), "heston:regime=" + case["regime"], "dt:%.4g" % dt,
            "start:" + case["start"], "heston:rho" + ("<-0.1" if rho < -0.1 else ">0.1" if rho > 0.1 else "~0"),
            "heston:spot-mean-" + ("live" if mean_live else "excluded"),
            "heston:trapezoid-allowance" + _bucket(abs(math.expm1(drift)), [1e-4, 1e-3, 5e-3, 5e-2]))


# ======================================================================================= local volatility
def make_sigma_fn(p, s_ref):
    """Bounded local volatility a + b*tanh(c*(S/S_ref - 1))*exp(-d*t), a-|b| >= 0.1 a > 0."""
    a, b, c, d = p["a"], p["a"] * p["b_rel"], p["c"], p["d"]

    def sigma_fn(time, spot):
        return a + b * torch.tanh(c * (spot / s_ref - 1.0)) * torch.exp(-d * time)

    return sigma_fn


@st.composite
def localvol_case(draw, tier):
    return {"dt": draw(st.sampled_from(DTS)), "seed": draw(seed_s), "n_paths": N_PATHS[tier],
            "n_steps": draw(st.integers(3, 40)),
            "s0": draw(st.one_of(fl(0.3, 30.0), fl(1.5, 30.0), st.sampled_from([1.0, 2.0]))),
            "fn": {"a": draw(fl(0.05, 0.6)), "b_rel": draw(st.one_of(fl(0.1, 0.9), fl(-0.9, -0.1), fl(0.3, 0.9), fl(-0.9, -0.3), st.just(0.0))),
                   "c": draw(fl(0.5, 5.0)), "d": draw(fl(0.0, 3.0))}}


def check_localvol(case, ctx):
    import pfhedge.stochastic as ps

    dt, T, s0 = case["dt"], case["n_steps"], case["s0"]
    fn = make_sigma_fn(case["fn"], s0)
    a_max = case["fn"]["a"] * (1 + abs(case["fn"]["b_rel"]))
    idx = time_idx(T)
    steps = sorted({0, (T - 2) // 2, T - 2})
    pre = "C10/localvol"
    seen = {}
    eps32 = EPS["float32"]

    def simulate(seed, n):
        torch.manual_seed(seed)
        cols, per_step = [], {i: [] for i in steps}
        for c, m in enumerate(_chunks(n, T * 6)):
            with ctx.sut(pre):
                out = ps.generate_local_volatility_process(m, T, fn, init_state=(s0,), dt=dt, dtype=torch.float64)
            spot, vol = out.spot, out.volatility
            if c == 0 and not seen:
                k = min(m, 2000)
                want = torch.stack([fn(torch.tensor(i * dt, dtype=torch.float64), spot[:k, i]) for i in range(T)], 1)
                seen["vol_err"] = float((vol[:k] - want).abs().max())
                seen["init_ok"] = bool((spot[:, 0] == s0).all())
            cols.append(spot[:, idx] / s0)
            for i in steps:
                sig = fn(torch.tensor(i * dt, dtype=torch.float64), spot[:, i])
                per_step[i].append(torch.stack([(spot[:, i + 1] / spot[:, i] - 1.0) / (sig * math.sqrt(dt)), spot[:, i]], 1))
        x = torch.cat(cols)
        res = []
        for j, i in enumerate(idx):
            t = i * dt
            if a_max ** 2 * t <= MAX_LOGVAR_FOR_MEAN:
                res.append(S.mean_stat(pre + "/mean", f"E[S_t/S_0] t={t:.4g}", x[:, j], 1.0, 1e-12, {"t": t, "step": i}))
        for i in steps:
            a = torch.cat(per_step[i])
            r, s_i = a[:, 0], a[:, 1]
            info = {"step": i}
            res.append(S.mean_stat(pre + "/residual-mean", f"E[r_{i}], r = (S_(i+1)/S_i - 1)/(sigma(t_i,S_i) sqrt(dt))", r, 0.0, 1e-12, info))
            # sqrt(dt) is formed by the code in the default dtype (float32): variance compared at that resolution
            res.append(S.var_stat(pre + "/residual-variance", f"Var[r_{i}]", r, 1.0, 8 * eps32, info))
            if i >= 1:
                sc = (s_i - s_i.mean()) / s_i.std()
                res.append(S.mean_stat(pre + "/residual-independence", f"E[r_{i} * standardised S_{i}]", r * sc, 0.0, 1e-12, info))
        return res

    S.retest(ctx, case, simulate, case["seed"], case["n_paths"])
    ctx.check(seen.get("init_ok", True), pre + "/initial-state", f"spot[:, 0] is not the requested state {s0}")
    ctx.check(seen.get("vol_err", 0.0) <= 1e-12 * max(1.0, a_max), pre + "/volatility-buffer",
              f"volatility buffer differs from sigma_fn(t_i, S_i) by {seen.get('vol_err')}")
    n_excl = sum(1 for i in idx if a_max ** 2 * i * dt > MAX_LOGVAR_FOR_MEAN)
    if n_excl:
        ctx.exclude("localvol mean at sigma_max^2 t > 1.5 (one-step residuals asserted)", n_excl)
    ctx.nontrivial(s0 != 1.0 and (dt != 1 / 250 or T != 21) and case["fn"]["b_rel"] != 0.0 and case["fn"]["c"] > 0)
    ctx.cls("dt:%.4g" % dt, "localvol:" + ("flat" if case["fn"]["b_rel"] == 0 or case["fn"]["c"] == 0 else "state-dependent"),
            "localvol:sigma_max" + _bucket(a_max, [0.2, 0.5, 1.2]), "horizon:" + _bucket((T - 1) * dt, [0.1, 0.5, 1, 2, 4]))


# ======================================================================================= rough Bergomi
def rb_hybrid_var(alpha, dt, i):
    """Var Y_{t_i} of the published hybrid scheme (McCrickerd-Pakkanen, kappa=1): exact first cell + kernel (b_k dt)^alpha
    on the others, with the kernel evaluated on the time grid (normalisation 1/dt). Equals t^(2 alpha+1) up to O(dt^(2a+1)) * 1e-2."""
    def b(k):
        return ((k ** (alpha + 1) - (k - 1) ** (alpha + 1)) / (alpha + 1)) ** (1 / alpha)

    if i == 0:
        return 0.0
    return dt ** (2 * alpha + 1) + (2 * alpha + 1) * dt * sum((b(k) * dt) ** (2 * alpha) for k in range(2, i + 1))


def rb_one_year(case):
    return abs((case["n_steps"] - 1) * case["dt"] - 1.0) < 1e-9


RB_MAX_STEP_VARIANCE = 30.0


def rb_eta_max(alpha, xi, dt, n_steps, lo=0.3, hi=2.5):
    """Largest eta in [lo, hi] for which the one-step variance V*dt stays below RB_MAX_STEP_VARIANCE at 6.5 standard deviations
    of log V over the whole horizon (the bound on Var log V includes the K2 inflation factor T^(-2 alpha) for T > 1).
    Beyond it float64 spots underflow to 0 on some of 1e6 paths and log-domain statistics do not exist."""
    horizon = (n_steps - 1) * dt
    h = 2 * alpha + 1
    c = math.sqrt(horizon ** h * max(1.0, horizon ** (-2 * alpha)))

    def g(eta):
        return math.log(xi) + 6.5 * c * eta - 0.5 * eta * eta * horizon ** h + math.log(dt) - math.log(RB_MAX_STEP_VARIANCE)

    if g(hi) <= 0:
        return hi
    if g(lo) > 0:
        return lo
    a, b = lo, hi
    for _ in range(60):
        m = 0.5 * (a + b)
        if g(m) <= 0:
            a = m
        else:
            b = m
    return a


@st.composite
def rbergomi_case(draw, tier):
    horizon = draw(st.sampled_from(["one_year", "one_year", "one_year", "other", "other"]))
    if horizon == "one_year":
        dt = draw(st.sampled_from([0.1, 0.1, 1 / 12, 1 / 12, 1 / 50, 1 / 50, 1 / 250]))
        n_steps = int(round(1 / dt)) + 1
    else:
        dt = draw(st.sampled_from(DTS))
        n_steps = draw(st.integers(2, 40).filter(lambda n: abs((n - 1) * dt - 1.0) > 1e-9))
    n = N_PATHS[tier]
    if n_steps > 60:
        n //= 8
    alpha = draw(st.one_of(fl(-0.45, -0.05), fl(-0.3, -0.05), fl(-0.45, -0.3)))
    xi = draw(fl(0.01, 0.2))
    case = {"dt": dt, "n_steps": n_steps, "horizon": horizon, "seed": draw(seed_s), "n_paths": n,
            "alpha": alpha, "rho": draw(st.one_of(fl(-0.95, 0.95), fl(-0.95, -0.87))),
            "eta": draw(fl(0.3, rb_eta_max(alpha, xi, dt, n_steps))), "xi": xi,
            "s0": draw(st.one_of(st.none(), fl(0.3, 30.0)))}
    return case


def check_rbergomi(case, ctx):
    import pfhedge.stochastic as ps

    dt, T = case["dt"], case["n_steps"]
    alpha, rho, eta, xi = case["alpha"], case["rho"], case["eta"], case["xi"]
    s0 = 1.0 if case["s0"] is None else case["s0"]
    init = None if case["s0"] is None else (case["s0"], xi)  # documented default (1.0, xi)
    idx = time_idx(T)
    steps = sorted({0, (T - 2) // 2, T - 2}) if T >= 3 else [0]
    one_year = rb_one_year(case)
    fv_live = one_year or bool(case.get("k2_probe"))
    spot_mean_live = rho <= -0.87
    pre = "C10/rbergomi"
    seen = {}
    h = 2 * alpha + 1

    def simulate(seed, n):
        torch.manual_seed(seed)
        lvc, ratio, logmart, per_step = [], [], [], {i: [] for i in steps}
        for c, m in enumerate(_chunks(n, T * 14)):
            with ctx.sut(pre):
                out = ps.generate_rough_bergomi(m, T, init_state=init, alpha=alpha, rho=rho, eta=eta, xi=xi, dt=dt,
                                                dtype=torch.float64)
            spot, v = out.spot, out.variance
            if c == 0 and not seen:
                seen["init_ok"] = bool((spot[:, 0] == s0).all()) and bool((v[:, 0] == xi).all())
            ls = spot.log()
            if not (bool(torch.isfinite(ls).all()) and bool(torch.isfinite(v).all()) and bool((v > 0).all())):
                seen["nonfinite"] = True
            lvc.append(v[:, idx].log())
            ratio.append(spot[:, -1] / s0)
            logmart.append(ls[:, -1] - math.log(s0) + 0.5 * dt * v[:, :-1].sum(1))
            for i in steps:
                vi = v[:, i]
                per_step[i].append(torch.stack([(ls[:, i + 1] - ls[:, i] + 0.5 * vi * dt) / (vi * dt).sqrt(), vi.log()], 1))
        lv, ratio, logmart = torch.cat(lvc), torch.cat(ratio), torch.cat(logmart)
        res = []
        for j, i in enumerate(idx):
            t = i * dt
            ideal, hyb = t ** h, rb_hybrid_var(alpha, dt, i)
            info = {"t": t, "step": i, "ideal_var_Y": ideal, "hybrid_var_Y": hyb, "horizon": (T - 1) * dt}
            res.append(S.mean_stat(pre + "/log-variance-drift", f"E[log V_t] t={t:.4g}", lv[:, j],
                                   math.log(xi) - 0.5 * eta ** 2 * ideal, 1e-12, info))
            if fv_live:
                # accepted band: between the ideal law (forward variance exactly xi) and the published hybrid scheme
                bias = 0.5 * eta ** 2 * (hyb - ideal)
                res.append(S.log_mgf_stat(pre + "/forward-variance", f"log E[V_t] (Gaussian log V: mean + var/2) t={t:.4g}",
                                          lv[:, j], math.log(xi) + bias / 2, abs(bias) / 2 + 1e-12, info))
                res.append(S.var_stat(pre + "/forward-variance/log-variance", f"Var[log V_t] t={t:.4g}", lv[:, j],
                                      eta ** 2 * (hyb + ideal) / 2, eta ** 2 * abs(hyb - ideal) / 2 + 1e-12, info))
        for i in steps:
            a = torch.cat(per_step[i])
            r, lvi = a[:, 0], a[:, 1]
            info = {"step": i}
            res.append(S.mean_stat(pre + "/residual-mean", f"E[r_{i}], r = (dlogS_i + V_i dt/2)/sqrt(V_i dt)", r, 0.0, 1e-9, info))
            res.append(S.var_stat(pre + "/residual-variance", f"Var[r_{i}]", r, 1.0, 1e-9, info))
            if i >= 1:
                sc = (lvi - lvi.mean()) / lvi.std()
                res.append(S.mean_stat(pre + "/residual-independence", f"E[r_{i} * standardised log V_{i}]", r * sc, 0.0, 1e-9, info))
        res.append(S.mean_stat(pre + "/log-martingale", "E[log S_T/S_0 + 1/2 sum V_i dt]", logmart, 0.0, 1e-9, {"horizon": (T - 1) * dt}))
        if spot_mean_live:
            res.append(S.mean_stat(pre + "/spot-mean", "E[S_T/S_0]", ratio, 1.0, 1e-12, {"horizon": (T - 1) * dt}))
        return res

    S.retest(ctx, case, simulate, case["seed"], case["n_paths"])
    ctx.check(seen.get("init_ok", True), pre + "/initial-state", f"column 0 is not (S0, xi) = ({s0}, {xi})")
    ctx.check(not seen.get("nonfinite"), pre + "/non-finite", "spot or variance contains 0, inf or nan (log-domain statistics undefined)")
    if not fv_live:
        ctx.exclude("K2: rough-Bergomi forward-variance / log-variance law at (n_steps-1)*dt != 1", 2 * len(idx))
    if not spot_mean_live:
        ctx.exclude("rbergomi spot mean at rho > -0.87 (no finite 4th moment; log-domain martingale identities asserted)")
    ndiff = (alpha != -0.4) + (rho != -0.9) + (eta != 1.9) + (xi != 0.04) + (dt != 1 / 250)
    ctx.nontrivial(ndiff >= 2 and case["s0"] is not None and s0 != 1.0)
    worst = max(abs(rb_hybrid_var(alpha, dt, i) - (i * dt) ** h) for i in idx) * 0.5 * eta ** 2
    ctx.cls("dt:%.4g" % dt, "rbergomi:horizon=" + ("1y" if one_year else "other"),
            "rbergomi:forward-variance-" + ("live" if fv_live else "excluded(K2)"),
            "rbergomi:hybrid-bias-in-logE[V]" + _bucket(worst, [1e-4, 1e-3, 5e-3, 2e-2]),
            "rbergomi:rho" + ("<=-0.87" if spot_mean_live else ">-0.87"), "rbergomi:alpha" + _bucket(alpha, [-0.3, -0.15, -0.05]))


# ======================================================================================= known findings
def _known_k2(case, violation):
    """K2: kernel of the rough-Bergomi hybrid scheme normalised by n_steps-1 instead of 1/dt: the forward variance / log-variance
    law fails whenever the horizon (n_steps-1)*dt is not one year. Nothing else is attributed to it."""
    return (violation["label"].startswith("C10/rbergomi/forward-variance")
            and isinstance(case, dict) and "alpha" in case and "eta" in case and not rb_one_year(case))


KNOWN = {"K2": _known_k2}

_DIST_RULE = ("non-trivial: at least two parameters differ from the documented defaults and the initial state is not the default. "
              "Every statistic: 6 SE + a-priori allowance, retest on a 4x independent sample before a violation is reported.")

SUBS = [
    Sub("pathwise", check_pathwise,
        rule="Hypothesis draws (n_paths<=4, n_steps<=12) normals (float32/float64/default dtype), x0, sigma, mu, dt and hands them to "
             "generate_brownian / generate_geometric_brownian / generate_merton_jump(jump_per_year=0) / generate_kou_jump(jump_per_year=0) "
             "through an engine stub; oracle = x0 + mu t_i + sigma sqrt(dt) sum_{1<=j<=i} Z_j resp. S0 exp((mu - sigma^2/2) t_i + ...) in "
             "40-digit mpmath at every step. Non-trivial: n_steps>=3, sigma>0, mu!=0, non-default start.",
        strategy=lambda tier: pathwise_case(), examples={"quick": 1600, "thorough": 16000}),
    Sub("engines", check_engines,
        rule="randn_antithetic (sizes 1..12 odd/even, shuffle on/off/default, same torch seed): un-shuffled sample is (Z,-Z), shuffled "
             "sample is a row permutation of it, closed under negation, column sums cancel; E[Z^2]=1, E[Z^4]=3 on 2e4..2e5 rows; "
             "box_muller vs the documented formula in mpmath incl. the epsilon clamp; randn_sobol_boxmuller = Box-Muller of the Sobol "
             "points (sampled elements in mpmath), mean/variance within the i.i.d. 6-sigma bound. Non-trivial: n>=2 / generic uniforms.",
        strategy=lambda tier: engine_case(), examples={"quick": 800, "thorough": 8000}),
    Sub("dist_diffusion", check_diffusion,
        rule="Brownian / GBM / Merton / Kou with drawn sigma, mu, start, dt in {1/250,1/50,1/12,0.1}, 2..60 steps, jump intensities "
             "(incl. 0) and sizes, drawn torch seed; at 1-4 times: E X_t, Var X_t (Brownian); E log S_t, Var log S_t = sigma^2 t + "
             "lambda t E[J^2], E S_t = S0 e^{mu t}. " + _DIST_RULE,
        strategy=lambda tier: diffusion_case(tier), examples={"quick": 320, "thorough": 480},
        time_cap={"quick": 300.0, "thorough": 1500.0}),
    Sub("dist_meanrev", check_meanrev,
        rule="CIR (both QE branches forced through the Feller ratio; starts default/theta/0/low/high) and Vasicek (starts default, "
             "theta, 0, negative, any; float32/float64/default): E X_t = theta + (x0-theta)e^{-kappa t} and the closed-form variance at "
             "1-4 times. " + _DIST_RULE,
        strategy=lambda tier: meanrev_case(tier), examples={"quick": 320, "thorough": 480},
        time_cap={"quick": 300.0, "thorough": 1500.0}),
    Sub("dist_heston", check_heston,
        rule="Heston with drawn kappa, theta, sigma (QE regimes), rho, (S0,V0), dt, 3..36 steps: CIR moments of the variance buffer, "
             "standardised log-return residual given the variance path ~ N(0,1), correlation sign/size, conditional-mean control "
             "variate and unconditional spot mean. " + _DIST_RULE,
        strategy=lambda tier: heston_case(tier), examples={"quick": 160, "thorough": 240},
        time_cap={"quick": 300.0, "thorough": 1500.0}),
    Sub("dist_localvol", check_localvol,
        rule="local volatility a + b tanh(c(S/S0-1)) e^{-d t} (bounded, drawn), S0, dt, 3..40 steps: E S_t = S0, one-step residual "
             "(S_{i+1}/S_i - 1)/(sigma sqrt(dt)) ~ (0,1) uncorrelated with S_i, volatility buffer = sigma_fn(t_i, S_i). " + _DIST_RULE,
        strategy=lambda tier: localvol_case(tier), examples={"quick": 96, "thorough": 160},
        time_cap={"quick": 300.0, "thorough": 1500.0}),
    Sub("dist_rbergomi", check_rbergomi,
        rule="rough Bergomi with drawn alpha, rho, eta, xi, S0; 60 % of cases with (n_steps-1)*dt = 1 at dt in {0.1,1/12,1/50,1/250}, "
             "others off one year (forward-variance assertions excluded there: K2): variance[:,0]=xi, E log V_t, log E V_t = log xi, "
             "Var log V_t, standardised spot residuals ~ (0,1) uncorrelated with log V_i, E[log S_T + 1/2 sum V dt] = 0, E S_T (rho<=-0.87). "
             + _DIST_RULE,
        strategy=lambda tier: rbergomi_case(tier), examples={"quick": 96, "thorough": 160},
        time_cap={"quick": 300.0, "thorough": 1500.0}),
]

META = {
    "technique": "property-based testing: Hypothesis-generated normals through an engine stub vs closed-form SDE solutions in mpmath; "
                 "Hypothesis-generated parameter sets x 2e5/2e6 simulated paths vs closed-form moments with sample standard errors, "
                 "z=6 and an independent 4x retest",
    "level_text": "Exploration: ~1.6e3 pathwise cases compared step by step with 40-digit closed forms, ~1e3 parameter sets x 2e5 paths per quick run "
                  "(all nine generators, both QE branches, non-default states, four step sizes) whose first two moments, one-step "
                  "residuals and correlations agree with the model laws within 6 standard errors; realistic mutants of every drift, "
                  "Itô, compensator and variance term are caught (mutants/results_c10.json). Known finding K2 is excluded by "
                  "construction and re-demonstrated by a committed replay.",
}
