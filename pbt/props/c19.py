"""C19 - Bisection and implied volatility invert monotone functions to precision."""
import math

import mpmath as mp
import numpy as np
import torch
from hypothesis import strategies as st

from ..core import HarnessError, Sub
from ..gens import DTYPES, EPS, fl
from ..oracles import c19mp
from ..oracles.c19mp import FAMILIES, bs_price_mp, conditioning, f_mp, inv_mp, torch_fn

PROPERTY_ID = "C19"
NOISE = 32.0  # forward-error constant of the generated functions: |fl(f)(x) - f(x)| <= NOISE*eps*M (M from conditioning())
IV_SLACK = 0.25  # implied vol: slack = IV_SLACK*precision on either side
IV_THR = 250.0  # identifiable iff the price moves by more than IV_THR*eps*scale over that slack
ASSUMPTIONS = [
    "one monotone direction per bisect call (mixed directions are outside the contract and are not generated)",
    "bisect: |output - root| <= precision + 32*eps*M/|f'|min, root = closed-form inverse (mpmath, 40 digits) of the dtype-rounded target; "
    "M = magnitude of the terms of f on the bracket, so 32*eps*M bounds the rounding error of evaluating f and of rounding the target",
    "reachable precision: precision >= 4*ulp(max|bracket|) in the working dtype (dtype of tensor brackets; the global default dtype for Python-float brackets)",
    "termination: a counter inside fn aborts the call after max_iter+4 evaluations (2 direction evaluations per recursion level, at most 2 levels); "
    "the asserted bound is max_iter+2 for increasing and max_iter+4 for decreasing functions",
    "must-raise classes: precision 0 / below a quarter of the float spacing at an interior root, or bracket width > 4*precision*2^max_iter; "
    "elsewhere a RuntimeError is accepted only where the precision is not reachable, and a returned value is always held to the precision oracle. "
    "The interior-root class requires the root to be away (4 slacks) from the first midpoint unless the brackets are per-element tensors, and the "
    "parameters to have the working dtype: fn sees 0-dim tensors first and full-shape tensors later, the two evaluation regimes may round differently and "
    "a root inside that noise can legitimately collapse the bracket to lower == upper",
    "implied volatility: asserted on the identifiable set only - both one-sided price moves over precision/4 (independent mpmath closed forms) exceed "
    "250*eps*scale, scale = max(K, S, running max) (1 for binaries); tolerance 1.25*precision (bisection bracket + noise/vega <= precision/4 by identifiability); "
    "the rest is counted as excluded",
    "European binary: generated only where its price is monotone in sigma on (0.001, 1): log-moneyness > 0, or log-moneyness < 0 with 2|s|/t >= 1.1 "
    "(d2 is monotone in sigma there; verified in mpmath)",
]


class _Runaway(BaseException):
    """Raised by the call counter: the code under test evaluated fn more often than max_iter allows."""


def _spacing(x: float, dtype: str) -> float:
    if dtype == "float32":
        return float(np.spacing(np.float32(abs(x))))
    return float(np.spacing(np.float64(abs(x))))


def _rnd(x: float, dtype: str) -> float:
    return torch.tensor(x, dtype=DTYPES[dtype]).item()


# =============================================================================== bisect
PRECISIONS = [1e-2, 1e-3, 1e-4, 1e-5, 1e-6, 1e-7, 1e-8, 1e-9]


@st.composite
def bisect_case(draw):
    klass = draw(st.sampled_from(["reach"] * 7 + ["unreach"] * 2 + ["short", "marginal", "inverted"]))
    bracket = draw(st.sampled_from(["float", "t0", "tN", "tN"]))
    case = {"klass": klass, "bracket": bracket}
    if bracket == "float":
        case["default"] = draw(st.sampled_from(["float32", "float32", "float32", "float64"]))
        case["dtype"] = case["default"]
        case["pdtype"] = "float64" if draw(st.integers(0, 7)) == 0 else case["dtype"]
    else:
        case["dtype"] = draw(st.sampled_from(["float32", "float64"]))
        case["pdtype"] = case["dtype"]
    shape = draw(st.one_of(st.just([]), st.lists(st.integers(1, 4), min_size=1, max_size=2)))
    case["shape"] = shape
    n = int(np.prod(shape)) if shape else 1
    case["family"] = draw(st.sampled_from(FAMILIES))
    case["dir"] = draw(st.sampled_from([1, -1]))
    per_el = draw(st.booleans())
    case["per_element"] = per_el
    nb = n if bracket == "tN" else 1
    lo_s = st.one_of(fl(-10.0, 10.0, "float32"), st.sampled_from([0.0, -1.0, 0.01, 1.0, 0.001, 0.5]))
    w_s = st.one_of(fl(0.5, 20.0, "float32"), fl(1e-3, 0.5, "float32"), st.sampled_from([1.0, 9.99, 0.999]))
    if bracket != "float" and klass == "reach":
        w_s = st.one_of(w_s, w_s, w_s, st.just(0.0))  # degenerate bracket (lower == upper), accepted since F7
    case["lo"] = [draw(lo_s) for _ in range(nb)]
    case["w"] = [draw(w_s) for _ in range(nb)]
    npar = n if per_el else 1
    case["params"] = [
        {"eA": draw(fl(-1.0, 1.0, "float32")), "eB": draw(fl(-1.0, 1.0, "float32")), "b": draw(fl(-5.0, 5.0, "float32")),
         "kappa": draw(fl(0.1, 3.0, "float32")), "gamma": draw(fl(-0.5, 1.5, "float32")), "flip": draw(st.booleans())}
        for _ in range(npar)]
    if klass == "unreach":
        root_s = st.tuples(st.just("uniform"), fl(0.1, 0.9, "float32"))
    else:
        root_s = st.one_of(
            st.tuples(st.just("uniform"), fl(0.0, 1.0, "float32")),
            st.tuples(st.just("uniform"), fl(0.0, 1.0, "float32")),
            st.tuples(st.sampled_from(["near_lo", "near_hi"]), fl(0.0, 1.0, "float32")),
            st.tuples(st.sampled_from(["at_lo", "at_hi"]), st.just(0.0)),
            st.tuples(st.sampled_from(["pct_lo", "pct_hi"]), fl(0.0, 0.01, "float32")),
        )
    case["roots"] = [list(draw(root_s)) for _ in range(n)]
    case["prec_i"] = draw(st.integers(0, 7))
    case["use_default_precision"] = draw(st.integers(0, 5)) == 0
    case["zero_precision"] = draw(st.booleans())
    if klass == "short":
        case["max_iter"] = draw(st.integers(0, 8))
    elif klass == "unreach":
        case["max_iter"] = draw(st.sampled_from([30, 60, 100, 200]))
    else:
        case["max_iter"] = draw(st.sampled_from([64, 100, 200]))
    case["inv_el"] = draw(st.integers(0, 15))
    return case


def _element_params(family, direction, q, lo_h, hi_h, pd):
    """Real parameters of one element from the normalised draw q and the hull [lo_h, hi_h] of the brackets."""
    X = max(abs(lo_h), abs(hi_h), 1e-3)
    Wh = max(hi_h - lo_h, 1e-3)
    A, B = 10.0 ** q["eA"], 10.0 ** q["eB"]
    p = {}
    if family == "affine":
        p = {"a": direction * A, "b": q["b"]}
    elif family == "exp":
        sk = -1.0 if q["flip"] else 1.0
        p = {"a": direction * sk * A, "k": sk * q["kappa"] / X, "b": q["b"]}
    elif family == "logistic":
        sk = -1.0 if q["flip"] else 1.0
        p = {"a": direction * sk * A, "k": sk * (0.5 + q["kappa"]) / Wh, "c": lo_h + q["gamma"] * Wh, "b": q["b"]}
    elif family == "cubic":
        p = {"a": direction * A / (Wh * Wh), "b": direction * B, "c": lo_h + q["gamma"] * Wh, "d": q["b"]}
    return {k: _rnd(v, pd) for k, v in p.items()}


def check_bisect(case, ctx):
    old = torch.get_default_dtype()
    try:
        if case["bracket"] == "float":
            torch.set_default_dtype(DTYPES[case["default"]])
        _check_bisect(case, ctx)
    finally:
        torch.set_default_dtype(old)


def _check_bisect(case, ctx):
    from pfhedge._utils.bisect import bisect

    mp.mp.dps = c19mp.DPS
    wd, pd = case["dtype"], case["pdtype"]
    eps = EPS[wd]
    shape = tuple(case["shape"])
    n = int(np.prod(shape)) if shape else 1
    klass, family, bracket = case["klass"], case["family"], case["bracket"]
    nb = len(case["lo"])
    # actual (dtype-rounded) brackets
    Lr = [_rnd(x, wd) for x in case["lo"]]
    Ur = [max(_rnd(x + w, wd), l) for x, w, l in zip(case["lo"], case["w"], Lr)]
    lo_h, hi_h = min(Lr), max(Ur)
    Le = [Lr[i if nb > 1 else 0] for i in range(n)]
    Ue = [Ur[i if nb > 1 else 0] for i in range(n)]
    # per-element functions
    dirs = []
    pars = []
    for e in range(n):
        q = case["params"][e if case["per_element"] else 0]
        d = case["dir"]
        dirs.append(d)
        pars.append(_element_params(family, d, q, lo_h, hi_h, pd))
    names = sorted(pars[0])
    if case["per_element"]:
        P = {k: torch.tensor([p[k] for p in pars], dtype=DTYPES[pd]).reshape(shape) for k in names}
    else:
        P = {k: torch.tensor(pars[0][k], dtype=DTYPES[pd]) for k in names}
    raw = torch_fn(family, P)
    # targets from the roots (mp), then the exact roots of the rounded targets
    roots0 = []
    for e in range(n):
        kind, u = case["roots"][e]
        L, U = Le[e], Ue[e]
        W = U - L
        if kind in ("uniform",):
            r = L + u * W
        elif kind == "pct_lo":
            r = L + u * W
        elif kind == "pct_hi":
            r = U - u * W
        elif kind == "near_lo":
            r = L + 1e-9 * u * W
        elif kind == "near_hi":
            r = U - 1e-9 * u * W
        elif kind == "at_lo":
            r = L
        else:
            r = U
        roots0.append(min(max(r, L), U))
    tvals = [_rnd(float(f_mp(family, pars[e], roots0[e])), pd) for e in range(n)]
    target = torch.tensor(tvals, dtype=DTYPES[pd]).reshape(shape)
    roots, slack = [], []
    for e in range(n):
        r = inv_mp(family, pars[e], tvals[e])
        M, dmin = conditioning(family, pars[e], Le[e], Ue[e])
        resid = abs(f_mp(family, pars[e], r) - mp.mpf(tvals[e]))
        if not resid <= mp.mpf(10) ** -25 * (M + 1):
            raise HarnessError(f"inverse oracle residual {resid} for {family} {pars[e]}")
        roots.append(r)
        slack.append(NOISE * eps * M / dmin + 2 * _spacing(max(abs(Le[e]), abs(Ue[e])), wd))
    # brackets as handed to bisect
    if bracket == "float":  # Python floats as drawn: torch.as_tensor rounds them to the default dtype (= Lr, Ur)
        lower, upper = case["lo"][0], case["lo"][0] + case["w"][0]
    elif bracket == "t0":
        lower, upper = torch.tensor(Lr[0], dtype=DTYPES[wd]), torch.tensor(Ur[0], dtype=DTYPES[wd])
    else:
        lower = torch.tensor(Lr, dtype=DTYPES[wd]).reshape(shape)
        upper = torch.tensor(Ur, dtype=DTYPES[wd]).reshape(shape)
    X = max(abs(lo_h), abs(hi_h))
    ulpX = _spacing(X, wd)
    Wmax = max(u - l for l, u in zip(Le, Ue))
    ok_prec = [p for p in PRECISIONS if p >= 4 * ulpX]
    max_iter = case["max_iter"]
    kw = {"max_iter": max_iter}
    must_raise, may_raise = False, False
    if klass in ("reach", "short", "inverted"):
        precision = ok_prec[case["prec_i"] % len(ok_prec)]
        if case["use_default_precision"] and 1e-6 in ok_prec:
            precision = 1e-6
        else:
            kw["precision"] = precision
        if klass == "short":
            must_raise = Wmax > 4 * precision * 2.0 ** max_iter
            may_raise = Wmax > precision
    elif klass == "marginal":
        precision = PRECISIONS[case["prec_i"]]
        kw["precision"] = precision
        may_raise = precision < 4 * ulpX
    else:  # unreach: 0 or a fraction of the float spacing at the interior root of largest magnitude
        e_big = max(range(n), key=lambda e: abs(float(roots[e])))
        r_big = float(roots[e_big])
        q = _spacing(r_big, wd) / 8
        precision = 0.0 if (case["zero_precision"] or abs(r_big) < 1e-3 * X or q < 1e-300) else q
        kw["precision"] = precision
        may_raise = True
        for e in range(n):
            r = float(roots[e])
            margin = min(r - Le[e], Ue[e] - r)
            # fn is evaluated on 0-dim tensors at the bracket ends and the first midpoint and on full-shape tensors afterwards (and in another
            # dtype when the parameters are float64 under float32 brackets): the two regimes may round differently, so a root within the noise
            # of the first midpoint can be bracketed inconsistently and the search may legitimately collapse to lower == upper there
            regime_ok = pd == wd and (bracket == "tN" or abs(r - (Le[e] + Ue[e]) / 2) > 4 * slack[e])
            if regime_ok and margin > 4 * slack[e] and (precision == 0.0 or (abs(r) > 8 * slack[e] and precision < _spacing(r, wd) / 4)):
                must_raise = True
    decreasing = any(d < 0 for d in dirs)
    budget = max_iter + (4 if decreasing else 2)
    calls = {"n": 0}

    def fn(x):
        calls["n"] += 1
        if calls["n"] > max_iter + 4:
            raise _Runaway()
        return raw(x)

    ctx.cls("klass:" + klass, "family:" + family, "dir:" + ("inc" if dirs[0] > 0 else "dec"),
            "bracket:" + bracket, "rank:%d" % len(shape), "dtype:" + wd + ("/params64" if pd != wd else ""),
            "precision:%g" % precision if precision in PRECISIONS or precision == 0 else "precision:sub-ulp")
    if bracket == "float":
        ctx.cls("default:" + case["default"])

    # ---- inverted brackets: ValueError --------------------------------------------------
    if klass == "inverted":
        i = case["inv_el"] % nb
        if Ur[i] > Lr[i]:
            if bracket == "float":
                lower, upper = upper, lower
            elif bracket == "t0":
                lower, upper = upper, lower
            else:
                lf, uf = lower.flatten().clone(), upper.flatten().clone()
                lf[i], uf[i] = upper.flatten()[i], lower.flatten()[i]
                lower, upper = lf.reshape(shape), uf.reshape(shape)
            ctx.cls("inverted:" + ("one-element" if nb > 1 else "all"))
            try:
                ctx.expect_raises("C19/bisect/inverted-bracket-accepted", (ValueError,),
                                  lambda: bisect(fn, target, lower, upper, **kw))
            except _Runaway:
                ctx.fail("C19/bisect/termination", f"more than max_iter+4={max_iter + 4} evaluations on an inverted bracket")
            ctx.nontrivial(True)
            return
        ctx.cls("inverted:degenerate-after-rounding")

    # ---- run ---------------------------------------------------------------------------
    snap = None
    if isinstance(lower, torch.Tensor):
        snap = (lower.clone(), upper.clone(), target.clone() if isinstance(target, torch.Tensor) else None)
    outcome, out = None, None
    try:
        with ctx.sut("C19/bisect"):
            try:
                out = bisect(fn, target, lower, upper, **kw)
                outcome = "value"
            except RuntimeError as exc:
                if "max_iter" not in str(exc):
                    raise
                outcome = "maxiter"
    except _Runaway:
        ctx.fail("C19/bisect/termination",
                 f"fn evaluated more than max_iter+4={max_iter + 4} times (precision={precision!r}): no error, still iterating",
                 max_iter=max_iter, precision=precision)
        return
    ctx.cls("outcome:" + outcome)
    if snap is not None:
        # "for any ... brackets": the caller's bracket tensors are the caller's - a second search with the same bracket objects
        # (other targets) must behave exactly like one with fresh copies of the values they held
        def again(lo_, up_):
            t2 = raw(((snap[0] + snap[1]) / 2) + torch.zeros(shape, dtype=snap[0].dtype))  # root = middle of the original bracket
            n2 = {"n": 0}

            def counted(x):  # the second search must terminate like the first
                n2["n"] += 1
                if n2["n"] > max_iter + 4:
                    raise _Runaway()
                return raw(x)
            try:
                return "value", bisect(counted, t2, lo_, up_, **kw)
            except RuntimeError as exc:
                if "max_iter" not in str(exc):
                    raise
                return "maxiter", None
            except ValueError:
                return "valueerror", None
        try:
            with ctx.sut("C19/bisect"):
                o_reused, r_reused = again(lower, upper)
                o_fresh, r_fresh = again(snap[0].clone(), snap[1].clone())
        except _Runaway:
            ctx.fail("C19/bisect/termination", f"a second search evaluated fn more than max_iter+4={max_iter + 4} times: no error, still iterating",
                     max_iter=max_iter, precision=precision)
            return
        same = o_reused == o_fresh and (r_reused is None or (r_reused.shape == r_fresh.shape and bool(((r_reused == r_fresh) | (r_reused.isnan() & r_fresh.isnan())).all())))
        ctx.check(same, "C19/bisect/bracket-reuse",
                  f"a second search with the same bracket tensors gives {o_reused} {None if r_reused is None else r_reused.flatten()[:3].tolist()} but "
                  f"{o_fresh} {None if r_fresh is None else r_fresh.flatten()[:3].tolist()} with fresh copies of the bracket: the first call changed the caller's bracket")
        if snap[2] is not None:
            ctx.check(torch.equal(target, snap[2]) or bool((target.isnan() & snap[2].isnan()).all()), "C19/bisect/bracket-reuse", "bisect modified the target tensor")
        ctx.cls("bracket-reuse:checked")
    ctx.check(calls["n"] <= budget, "C19/bisect/termination",
              f"{calls['n']} evaluations of fn > max_iter+{budget - max_iter} = {budget}", calls=calls["n"], max_iter=max_iter)
    near_end = any(min(float(roots[e]) - Le[e], Ue[e] - float(roots[e])) <= 0.01 * (Ue[e] - Le[e]) for e in range(n))
    distinct = case["per_element"] and n > 1
    ctx.nontrivial(decreasing or distinct or near_end)
    if near_end:
        ctx.cls("root:within-1pct-of-an-end")
    if any(u == l for l, u in zip(Le, Ue)):
        ctx.cls("bracket:has-degenerate-element")
    if outcome == "maxiter":
        ctx.check(may_raise or must_raise, "C19/bisect/spurious-maxiter",
                  f"RuntimeError(max_iter={max_iter}) although precision {precision!r} >= 4*ulp(bracket)={4 * ulpX:.3e} "
                  f"is reachable from width {Wmax!r} within {max_iter} iterations", precision=precision, width=Wmax)
        return
    if must_raise:
        ctx.fail("C19/bisect/no-error-when-unreachable",
                 f"returned a value although precision {precision!r} cannot be reached (width {Wmax!r}, max_iter {max_iter}, "
                 f"float spacing at the root {_spacing(float(roots[0]), wd):.3e})", precision=precision, calls=calls["n"])
        return
    # ---- precision oracle ---------------------------------------------------------------
    try:
        outb = torch.broadcast_to(out, shape).double().flatten().tolist()
    except RuntimeError:
        ctx.fail("C19/bisect/shape", f"output shape {tuple(out.shape)} does not broadcast to the target's {shape}")
        return
    for e in range(n):
        g = outb[e]
        tol = precision + slack[e]
        err = abs(mp.mpf(g) - roots[e]) if g == g and abs(g) != math.inf else mp.inf
        if not err <= tol:
            ctx.fail("C19/bisect/precision",
                     f"element {e}: output {g!r}, root {float(roots[e])!r}, |err| {float(err):.3e} > precision {precision:g} + slack {slack[e]:.2e} "
                     f"({family}, dir {dirs[e]}, bracket [{Le[e]!r},{Ue[e]!r}])",
                     element=e, got=g, root=float(roots[e]), precision=precision, params=pars[e])
            return


# ==================================================================== implied volatility
IV_KINDS = ["eu_call", "eu_put", "lb", "ab", "eb_call", "eb_put"]
IV_PREC = {"float64": [1e-3, 1e-4, None, 1e-6, 1e-8, 1e-10], "float32": [1e-2, 1e-2, 1e-3, 1e-3, 3e-4, None]}


@st.composite
def iv_case(draw):
    kind = draw(st.sampled_from(IV_KINDS))
    dtype = draw(st.sampled_from(["float32", "float64", "float64"]))
    shape = draw(st.one_of(st.just([]), st.lists(st.integers(1, 4), min_size=1, max_size=2),
                           st.lists(st.integers(3, 6), min_size=1, max_size=2)))
    n = int(np.prod(shape)) if shape else 1
    case = {"kind": kind, "dtype": dtype, "shape": shape,
            "strike": draw(st.one_of(st.sampled_from([1.0, 1.0, 0.5, 2.0]), fl(0.1, 10.0, "float32"))),
            "precision": draw(st.sampled_from(IV_PREC[dtype])),
            "region": draw(st.sampled_from(["pos", "pos", "neg"]))}
    els = []
    for _ in range(n):
        s = draw(st.one_of(fl(-1.0, 1.0, "float32"), fl(-0.2, 0.2, "float32"), fl(-0.2, 0.2, "float32")))
        t = draw(st.one_of(fl(0.01, 5.0, "float32"), fl(0.05, 1.0, "float32"), fl(1e-4, 0.05, "float32")))
        v = draw(st.one_of(fl(0.0011, 0.999, "float32"), fl(0.05, 0.6, "float32"),
                           fl(-2.95, -0.001, "float32").map(lambda e: 10.0 ** e)))
        gap = draw(st.one_of(st.just(0.0), fl(0.0, 0.5, "float32"), fl(0.0, 0.5, "float32")))
        if draw(st.integers(0, 4)) == 0:
            # saturated element: |d1|, |d2| of 4..9 at the upper bracket end sigma=1, where the time value is of the order of eps*scale and
            # the computed price is flat or noisy in sigma (unidentifiable itself; must not disturb its neighbours in the batch)
            d = draw(fl(4.0, 9.0, "float32"))
            s = max(-1.0, min(1.0, draw(st.sampled_from([1.0, -1.0])) * d * math.sqrt(t)))
        els.append({"s": s, "t": t, "v": v, "gap": gap})
    case["els"] = els
    return case


def _iv_inputs(case):
    """Per element (s, m, t, v) inside the domain of the module, as Python floats rounded to the dtype."""
    kind, dtype = case["kind"], case["dtype"]
    out = []
    for el in case["els"]:
        s, t, v, gap = el["s"], el["t"], el["v"], el["gap"]
        m = None
        if kind == "lb":
            m = s + gap
        elif kind == "ab":
            # the barrier has not been hit yet: s <= m < 0 (otherwise the price is 1 for every sigma)
            s = -abs(s) - 1e-3
            m = min(s + gap, -1e-4) if gap > 0 else s
        elif kind in ("eb_call", "eb_put"):
            if case["region"] == "pos":
                s = abs(s) + 1e-4
            else:  # s < 0 with 2|s|/t >= 1.1: d2 increasing in sigma on (0, 1]
                s = -abs(s) - 1e-3
                t = min(t, 2 * abs(s) / 1.1)
        s, t, v = _rnd(s, dtype), _rnd(t, dtype), _rnd(v, dtype)
        if m is not None:
            m = max(_rnd(m, dtype), s)
        if kind.startswith("eb") and case["region"] == "neg" and 2 * abs(s) / t < 1.05:
            t = _rnd(t * 0.9, dtype)
        v = min(max(v, _rnd(0.0011, dtype)), _rnd(0.999, dtype))
        out.append((s, m, t, v))
    return out


def _module(kind, strike):
    from pfhedge.nn import BSAmericanBinaryOption, BSEuropeanBinaryOption, BSEuropeanOption, BSLookbackOption

    if kind == "eu_call":
        return BSEuropeanOption(call=True, strike=strike)
    if kind == "eu_put":
        return BSEuropeanOption(call=False, strike=strike)
    if kind == "eb_call":
        return BSEuropeanBinaryOption(call=True, strike=strike)
    if kind == "eb_put":
        return BSEuropeanBinaryOption(call=False, strike=strike)
    if kind == "ab":
        return BSAmericanBinaryOption(call=True, strike=strike)
    return BSLookbackOption(call=True, strike=strike)


def check_iv(case, ctx):
    mp.mp.dps = 30
    kind, dtype, K = case["kind"], case["dtype"], case["strike"]
    shape = tuple(case["shape"])
    eps = EPS[dtype]
    els = _iv_inputs(case)
    n = len(els)
    T = lambda xs: torch.tensor(xs, dtype=DTYPES[dtype]).reshape(shape)
    s_t, t_t, v_t = T([e[0] for e in els]), T([e[2] for e in els]), T([e[3] for e in els])
    kw = {"log_moneyness": s_t, "time_to_maturity": t_t}
    if kind in ("lb", "ab"):
        kw["max_log_moneyness"] = T([e[1] for e in els])
    module = _module(kind, K)
    prec = case["precision"]
    pkw = {} if prec is None else {"precision": prec}
    precision = 1e-6 if prec is None else prec
    with ctx.sut("C19/iv/price"):
        price = module.price(volatility=v_t, **kw)
    snapshot = price.clone()
    with ctx.sut("C19/iv"):
        iv = module.implied_volatility(price=price, **kw, **pkw)
    ctx.cls("kind:" + kind, "dtype:" + dtype, "rank:%d" % len(shape), "precision:%g" % precision)
    if kind.startswith("eb"):
        ctx.cls("eb-region:" + case["region"])
    if not ctx.check(tuple(iv.shape) == shape, "C19/iv/shape", f"implied volatility shape {tuple(iv.shape)} != price shape {shape}"):
        return
    ctx.check(torch.equal(price, snapshot), "C19/iv/mutates", "implied_volatility modified the price tensor")
    got = iv.double().flatten().tolist()
    slack = IV_SLACK * precision
    n_ident = 0
    for e, (s, m, t, v) in enumerate(els):
        scale = 1.0 if kind in ("eb_call", "eb_put", "ab") else max(K, K * math.exp(s), K * math.exp(m if m is not None else s))
        thr = IV_THR * eps * scale
        p0 = bs_price_mp(kind, s, t, v, K, m)
        up_ok = v + slack >= 1.0 or abs(bs_price_mp(kind, s, t, v + slack, K, m) - p0) > thr
        dn_ok = v - slack <= 0.001 or abs(p0 - bs_price_mp(kind, s, t, v - slack, K, m)) > thr
        if not (up_ok and dn_ok):
            ctx.exclude("iv:unidentifiable-element")
            continue
        n_ident += 1
        g = got[e]
        tol = precision * (1.0 + IV_SLACK) + 4 * eps
        if not (g == g and abs(g - v) <= tol):
            ctx.fail("C19/iv/precision",
                     f"element {e}: implied volatility {g!r} for the price of sigma={v!r}: |diff| {abs(g - v):.3e} > {tol:.3e} "
                     f"({kind}, K={K!r}, s={s!r}, m={m!r}, t={t!r}, precision={precision:g}, {dtype})",
                     element=e, got=g, sigma=v, s=s, m=m, t=t, strike=K)
            return
    ctx.nontrivial(n_ident > 0)
    ctx.cls("identifiable:%s" % ("none" if n_ident == 0 else ("all" if n_ident == n else "some")))


# ------------------------------------------------------------- derivative-bound modules
@st.composite
def iv_bound_case(draw):
    return {"kind": draw(st.sampled_from(["eu_call", "eu_put", "lb", "ab"])),  # monotone in sigma for every moneyness
            "dtype": draw(st.sampled_from(["float32", "float64", "float64"])),
            "strike": draw(st.sampled_from([1.0, 0.9, 1.1, 1.03, 0.97, 1.3])),
            "sigma": draw(st.one_of(fl(0.05, 0.9, "float32"), st.sampled_from([0.2, 0.2]))),
            "steps": draw(st.integers(1, 8)), "dt": draw(st.sampled_from([1 / 250, 1 / 52, 1 / 12, 0.25])),
            "n_paths": draw(st.integers(1, 5)), "seed": draw(st.integers(0, 2 ** 31 - 1)),
            "precision": draw(st.sampled_from([None, None, 1e-3, 1e-4]))}


def check_iv_bound(case, ctx):
    """BlackScholes(derivative).implied_volatility(price=module.price()) with the simulated state of the derivative."""
    import pfhedge.instruments as I
    from pfhedge.nn import BlackScholes

    mp.mp.dps = 30
    kind, dtype, K = case["kind"], case["dtype"], case["strike"]
    eps = EPS[dtype]
    sigma = _rnd(case["sigma"], dtype)
    ul = I.BrownianStock(sigma=sigma, dt=case["dt"], dtype=DTYPES[dtype])
    cls = {"eu_call": I.EuropeanOption, "eu_put": I.EuropeanOption, "lb": I.LookbackOption, "ab": I.AmericanBinaryOption,
           "eb_call": I.EuropeanBinaryOption, "eb_put": I.EuropeanBinaryOption}[kind]
    deriv = cls(ul, call=not kind.endswith("put"), strike=K, maturity=case["steps"] * case["dt"])
    torch.manual_seed(case["seed"])
    deriv.simulate(n_paths=case["n_paths"])
    module = BlackScholes(deriv)
    prec = case["precision"]
    precision = 1e-6 if prec is None else prec
    if dtype == "float32" and prec is None:
        precision = 1e-6
    pkw = {} if prec is None else {"precision": prec}
    with ctx.sut("C19/iv-bound/price"):
        price = module.price()
    with ctx.sut("C19/iv-bound"):
        iv = module.implied_volatility(price=price, **pkw)
    ctx.cls("kind:" + kind, "dtype:" + dtype, "precision:%g" % precision)
    s_all = deriv.log_moneyness().double()
    t_all = deriv.time_to_maturity().double()
    m_all = deriv.max_log_moneyness().double() if kind in ("lb", "ab") else s_all
    if not ctx.check(tuple(iv.shape) == tuple(s_all.shape), "C19/iv/shape", f"shape {tuple(iv.shape)} != {tuple(s_all.shape)}"):
        return
    slack = IV_SLACK * precision
    n_ident = 0
    for i in range(s_all.shape[0]):
        # one direction per call is guaranteed only for the kinds whose price is monotone for every moneyness
        for j in range(s_all.shape[1]):
            s, t, m = s_all[i, j].item(), t_all[i, j].item(), m_all[i, j].item()
            if t <= 0.0:
                ctx.exclude("iv:at-maturity")
                continue
            if kind.startswith("eb") and not (s > 0 or 2 * abs(s) / t >= 1.1):
                ctx.exclude("iv:eb-non-monotone-region")
                continue
            scale = 1.0 if kind in ("eb_call", "eb_put", "ab") else max(K, K * math.exp(s), K * math.exp(m))
            thr = IV_THR * eps * scale
            p0 = bs_price_mp(kind, s, t, sigma, K, m)
            up_ok = sigma + slack >= 1.0 or abs(bs_price_mp(kind, s, t, sigma + slack, K, m) - p0) > thr
            dn_ok = sigma - slack <= 0.001 or abs(p0 - bs_price_mp(kind, s, t, sigma - slack, K, m)) > thr
            if not (up_ok and dn_ok):
                ctx.exclude("iv:unidentifiable-element")
                continue
            n_ident += 1
            g = iv[i, j].item()
            tol = precision * (1.0 + IV_SLACK) + 4 * eps
            if not (g == g and abs(g - sigma) <= tol):
                ctx.fail("C19/iv/precision",
                         f"path {i} step {j}: implied volatility {g!r} for sigma={sigma!r}: |diff| {abs(g - sigma):.3e} > {tol:.3e} "
                         f"({kind}, K={K!r}, s={s!r}, m={m!r}, t={t!r}, {dtype})", got=g, sigma=sigma, s=s, m=m, t=t)
                return
    ctx.nontrivial(n_ident > 0)
    ctx.cls("identifiable:%s" % ("none" if n_ident == 0 else "some"))


SUBS = [
    Sub("bisect", check_bisect,
        rule="Hypothesis draws a family (affine, a*exp(kx)+b, a*sigmoid(k(x-c))+b, a(x-c)^3+b(x-c)+d with ab>0), one direction per call, shared or "
             "per-element parameters, shape (), (n), (n,m) (n,m<=4), brackets as Python floats (working dtype = global default f32/f64, set and restored), "
             "0-dim tensors or per-element tensors (f32/f64; some elements degenerate lower==upper), roots uniform / within 1e-9*width or 1% of an end / at an end; "
             "classes: reach (precision in 1e-2..1e-9 with >= 4 ulp(bracket), or the default), unreach (precision 0 or < spacing(root)/8: RuntimeError required "
             "within max_iter+2(+2) evaluations), short (max_iter<=8), marginal, inverted (ValueError). Oracle: mpmath inverse of the "
             "rounded target. Non-trivial: decreasing, or per-element-different function, or a root within 1% of a bracket end.",
        strategy=lambda tier: bisect_case(), examples={"quick": 8000, "thorough": 80000},
        time_cap={"quick": 240.0, "thorough": 900.0}),
    Sub("implied_vol", check_iv,
        rule="modules BSEuropeanOption(call/put), BSLookbackOption, BSAmericanBinaryOption (barrier not hit), BSEuropeanBinaryOption(call/put; s>0, or s<0 "
             "with 2|s|/t>=1.1) x strike in (0.1,10] x f32/f64 x shapes (), (n), (n,m) x per element s in [-1,1], t in (1e-4,5], sigma in (0.001,1) (uniform and "
             "log-uniform), running max >= spot x precision (f64: 1e-3..1e-10 and default; f32: 1e-2..3e-4 and default). price = module.price(sigma); assert "
             "|iv(price) - sigma| <= 1.25*precision on identifiable elements (independent mpmath price moves by > 250 eps scale over precision/4 on both sides). "
             "Non-trivial: at least one identifiable element.",
        strategy=lambda tier: iv_case(), examples={"quick": 3500, "thorough": 35000},
        time_cap={"quick": 240.0, "thorough": 900.0}),
    Sub("implied_vol_bound", check_iv_bound,
        rule="BlackScholes(derivative) of the four option types on a simulated BrownianStock(sigma) (1..8 steps, dt in {1/250,1/52,1/12,0.25}, <=5 paths, "
             "strikes around the money): implied_volatility(price=module.price()) with all other arguments taken from the derivative must return sigma on the "
             "identifiable (path, step) elements with t>0. Non-trivial: at least one identifiable element.",
        strategy=lambda tier: iv_bound_case(), examples={"quick": 1000, "thorough": 10000},
        time_cap={"quick": 240.0, "thorough": 900.0}),
]

META = {
    "technique": "property-based testing: generated monotone function families with closed-form mpmath inverses, call-counting wrapper for termination; "
                 "implied volatility round trip on the mpmath-identifiable set",
    "level_text": "Exploration: thousands of generated (family, direction, per-element parameters, bracket kind, root placement, precision, max_iter) "
                  "bisection calls compared with the 40-digit inverse, with a call counter proving the max_iter abort, and thousands of implied-volatility "
                  "round trips over all four Black-Scholes modules in f32/f64; mutants of the direction test, both end updates, the stopping rule and the "
                  "bracket cast are caught (mutants/results_c19.json).",
}
