import torch, math, warnings
warnings.filterwarnings("ignore")
from pfhedge.stochastic import generate_rough_bergomi
torch.manual_seed(0)
for dt in [1/12, 1/50, 1/250]:
    n=round(1/dt)+1; alpha=-0.4; eta=1.2; N=200000 if dt>1/100 else 40000
    o=generate_rough_bergomi(N,n,dt=dt,eta=eta,alpha=alpha,xi=0.05,dtype=torch.float64)
    lv=o.variance.log()
    b=lambda k: ((k**(alpha+1)-(k-1)**(alpha+1))/(alpha+1))**(1/alpha)
    for i in [1,2,3,n//2,n-1]:
        varY=(2*alpha+1)*(dt**(2*alpha+1)/(2*alpha+1)+dt*sum((b(k)*dt)**(2*alpha) for k in range(2,i+1)))
        samp=lv[:,i].var().item()
        se=samp*math.sqrt(2/(N-1))
        t=i*dt
        print(f"dt={dt:.4f} i={i} sample {samp:.5f} scheme {eta**2*varY:.5f} z={(samp-eta**2*varY)/se:.2f} ideal {eta**2*t**(2*alpha+1):.5f} meanlog z={((lv[:,i].mean()-math.log(0.05)+0.5*eta**2*t**(2*alpha+1))/(lv[:,i].std()/math.sqrt(N))).item():.2f}")
    # correlation sign between spot returns and variance moves
    r=o.spot.log().diff(dim=1); dv=lv.diff(dim=1)
    print("  corr", torch.corrcoef(torch.stack([r.flatten(),dv.flatten()]))[0,1].item(), "spot mean z", ((o.spot[:,-1].mean()-1)/(o.spot[:,-1].std()/math.sqrt(N))).item())
