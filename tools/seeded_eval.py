#!/venv/bin/python
"""Run the checks against the seeded changes kept under /verif/seeded/<name>/ (patch.diff, demo.py, meta.json).

For each seeded change: copy /repo's package to a scratch directory, apply the patch there, (optionally) run the
demonstration with and without the change, run the quick (or thorough) tier of the property it breaks with
VERIF_REPO pointing at the copy, record whether a VIOLATION was reported, remove the copy.
usage: tools/seeded_eval.py [--only NAME] [--tier quick] [--jobs 8] [--demo] [--props C01,C02 (extra properties to run)]
Writes seeded/results.json.
"""
import argparse
import json
import os
import shutil
import subprocess
import sys
import tempfile
import time

HERE = os.path.dirname(os.path.dirname(os.path.abspath(__file__)))
REPO = "/repo"


def sh(cmd, **kw):
    return subprocess.run(cmd, capture_output=True, text=True, **kw)


def evaluate(name, tier, jobs, demo, extra_props):
    d = os.path.join(HERE, "seeded", name)
    meta = json.load(open(os.path.join(d, "meta.json")))
    out = {"name": name, "property": meta["property"]}
    if meta.get("obsolete"):
        out.update(obsolete=True, caught=False)
        return out
    root = tempfile.mkdtemp(prefix="seeded_", dir="/tmp")
    try:
        shutil.copytree(os.path.join(REPO, "pfhedge"), os.path.join(root, "pfhedge"))
        p = sh(["git", "apply", "--unsafe-paths", "--directory", root, os.path.join(d, "patch.diff")], cwd=root)
        if p.returncode != 0:
            p = sh(["patch", "-p1", "-d", root, "-i", os.path.join(d, "patch.diff")])
        out["applies"] = p.returncode == 0
        if not out["applies"]:
            out["error"] = (p.stdout + p.stderr)[-400:]
            return out
        if demo and os.path.exists(os.path.join(d, "demo.py")):
            env = dict(os.environ, PYTHONPATH=root, PYTHONWARNINGS="ignore")
            r1 = sh(["/venv/bin/python", os.path.join(d, "demo.py")], cwd=root, env=env, timeout=1800)
            env0 = dict(os.environ, PYTHONPATH=REPO, PYTHONWARNINGS="ignore")
            r0 = sh(["/venv/bin/python", os.path.join(d, "demo.py")], cwd="/tmp", env=env0, timeout=1800)
            out["demo_exit_with_change"], out["demo_exit_without"] = r1.returncode, r0.returncode
        res = {}
        also = [x for x in meta.get("also_check", []) if x != meta["property"]]
        for prop in [meta["property"]] + also + [x for x in extra_props if x != meta["property"] and x not in also]:
            env = dict(os.environ, VERIF_REPO=root, VERIF_JOBS=str(jobs), VERIF_REPLAY_DIR=os.path.join(root, "replays"))
            t0 = time.time()
            r = sh([os.path.join(HERE, "check"), prop, tier, "--no-evidence"], env=env, timeout=7200)
            text = r.stdout + r.stderr
            labels = sorted({l.split(":")[1].strip() for l in text.splitlines() if l.startswith("violation:")})
            res[prop] = {"exit": r.returncode, "caught": r.returncode == 1 and "VIOLATION" in text, "labels": labels[:8],
                         "wall_s": round(time.time() - t0, 1)}
            if r.returncode == 2:
                res[prop]["tail"] = text[-500:]
        out["checks"] = res
        out["caught"] = res[meta["property"]]["caught"] or any(res[x]["caught"] for x in also)
        if not res[meta["property"]]["caught"] and out["caught"]:
            out["caught_by"] = [x for x in also if res[x]["caught"]]
        return out
    finally:
        shutil.rmtree(root, ignore_errors=True)


def main():
    ap = argparse.ArgumentParser()
    ap.add_argument("--only")
    ap.add_argument("--tier", default="quick")
    ap.add_argument("--jobs", type=int, default=8)
    ap.add_argument("--demo", action="store_true")
    ap.add_argument("--props", default="")
    a = ap.parse_args()
    names = sorted(n for n in os.listdir(os.path.join(HERE, "seeded")) if os.path.isdir(os.path.join(HERE, "seeded", n)))
    if a.only:
        names = [n for n in names if n == a.only or n.startswith(a.only)]
    extra = [x for x in a.props.split(",") if x]
    path = os.path.join(HERE, "seeded", "results.json")
    results = {r["name"]: r for r in json.load(open(path))} if os.path.exists(path) else {}
    for n in names:
        r = evaluate(n, a.tier, a.jobs, a.demo, extra)
        r["tier"] = a.tier
        results[n] = r
        print(("CAUGHT " if r.get("caught") else "MISSED ") + n, json.dumps({k: v for k, v in r.items() if k not in ("name",)})[:600])
        sys.stdout.flush()
        json.dump(sorted(results.values(), key=lambda r: r["name"]), open(path, "w"), indent=1)
    return 0


if __name__ == "__main__":
    sys.exit(main())
