"""C03 - Batched and stepwise hedge evaluation agree; prev_hedge is the last output."""
import torch
from hypothesis import strategies as st

from ..core import Sub
from ..gens import (EPS, OPTIONS, STOCKS, build_derivative, build_primary, build_scenario, derivative_spec,
                    hedge_list, primary_spec, scenario, seed_s, simulate)

PROPERTY_ID = "C03"
ASSUMPTIONS = [
    "single steps i in [0, T) and counted from the end, i in [-T, 0) (running-maximum features and Barrier: [-T, -1), they raise IndexError for -1)",
    "feature get(i) vs get(None)[:, [i]]: 4 eps relative (vectorised and scalar kernels may differ in the last bits); "
    "time_to_maturity 4 eps * maturity absolute; ModuleOutput(Linear) 64 eps * (|W||x|+|b|)",
    "batched vs stepwise hedge: 64 eps * max(1,|hedge|) (2048 eps for Black-Scholes deltas of lookback / American binary options, which are "
    "autograd derivatives of ill-conditioned formulas); P&L and loss tolerances propagated from it",
    "prev_hedge feedback and the zero initial state are compared bitwise",
]


def dtype_name(dt):
    return {torch.float32: "float32", torch.float64: "float64"}[dt]


# ------------------------------------------------------------------------------ (a) features
@st.composite
def feature_case(draw):
    ul = draw(primary_spec(dtype="any", cost=False, dts=[1 / 250, 1 / 52, 0.01, 1 / 12]))
    deriv = draw(derivative_spec(min_steps=1, max_steps=9))
    return {"ul": ul, "deriv": deriv, "n_paths": draw(st.integers(1, 5)), "sim_seed": draw(seed_s),
            "barrier": draw(st.sampled_from([1.0, 1.01, 0.99, 0.04])), "listed": draw(st.booleans()),
            "lin_seed": draw(seed_s), "extra": draw(st.sampled_from([0, 0, 1, 3]))}


def all_features(case, deriv, dtype):
    from pfhedge.features import Barrier, ModuleOutput, Ones, Spot, UnderlierSpot
    from pfhedge.features import get_feature

    names = ["underlier_spot", "zeros"]
    if case["deriv"]["type"] in OPTIONS:
        names += ["moneyness", "log_moneyness", "time_to_maturity", "expiry_time", "max_moneyness", "max_log_moneyness"]
    if case["ul"]["type"] in STOCKS:
        names += ["volatility", "variance"]
    feats = [(n, get_feature(n)) for n in names]
    feats += [("Barrier(up)", Barrier(case["barrier"], up=True)), ("Barrier(down)", Barrier(case["barrier"], up=False)),
              ("ones", Ones())]
    positive = case["ul"]["type"] != "VasicekRate"
    if positive:
        feats.append(("underlier_log_spot", UnderlierSpot(log=True)))
    if case["listed"] and case["deriv"]["type"] in OPTIONS:
        feats.append(("spot", Spot()))
        feats.append(("log_spot(listed)", Spot(log=True)))
    torch.manual_seed(case["lin_seed"])
    lin = torch.nn.Linear(2, 3).to(dtype)
    feats.append(("ModuleOutput", ModuleOutput(lin, inputs=["underlier_spot", Ones()])))
    return feats, lin


def listed_pricer(derivative):
    return derivative.ul().spot * 0.5 + 0.25 + 0.1 * derivative.time_to_maturity()


def check_features(case, ctx):
    ul = build_primary(case["ul"])
    deriv = build_derivative(case["deriv"], ul)
    dtype = ul.dtype or torch.get_default_dtype()
    if case["listed"] and case["deriv"]["type"] in OPTIONS:
        deriv.list(listed_pricer)
    torch.manual_seed(case["sim_seed"])
    with ctx.sut("C03/simulate"):
        deriv.simulate(n_paths=case["n_paths"])
    eps = EPS[dtype_name(dtype)]
    feats, lin = all_features(case, deriv, dtype)
    bound = [(name, f.of(deriv)) for name, f in feats]

    def compare_all(rnd):
        N, Tn = ul.spot.shape
        maturity = (Tn - 1) * ul.dt
        for name, f in bound:
            with ctx.sut("C03/feature/" + name):
                full = f.get(None)
            if not ctx.check(full.dim() == 3 and full.shape[:2] == (N, Tn), "C03/feature/shape",
                             f"{name}.get(None) has shape {tuple(full.shape)}, expected ({N},{Tn},F)", feature=name):
                continue
            if rnd > 0:
                # the same bound feature object after a new simulation must see the new paths, like a fresh one
                fresh = dict(all_features(case, deriv, dtype)[0])[name] if name != "ModuleOutput" else None
                if fresh is not None:
                    with ctx.sut("C03/feature/" + name):
                        ff = fresh.of(deriv).get(None)
                    if not ctx.check(bool(((ff == full) | (ff.isnan() & full.isnan())).all()), "C03/feature/stale-after-resimulate",
                                     f"{name}.get(None) of a feature bound before a second simulate() differs from a fresh feature", feature=name):
                        continue
            idxs = list(range(Tn))
            if rnd > 0:
                # single steps need not be asked in the hedger's order: skip forward (0, 2, 4, ...), then come back (1, 3, ...)
                idxs = list(range(0, Tn, 2)) + list(range(1, Tn, 2))
            # steps counted from the end, where the feature accepts them (the running-maximum features and Barrier raise
            # IndexError for -1 on the reference tree; every other negative index is accepted by every feature)
            path_stat = name.startswith("max_") or name.startswith("Barrier")
            idxs += list(range(-Tn, -1 if path_stat else 0))
            for i in idxs:
                with ctx.sut("C03/feature/" + name):
                    one = f.get(i)
                col = full[:, [i]]
                if not ctx.check(tuple(one.shape) == tuple(col.shape), "C03/feature/shape",
                                 f"{name}.get({i}) shape {tuple(one.shape)} != {tuple(col.shape)}", feature=name):
                    break
                if not ctx.check(one.dtype == full.dtype, "C03/feature/dtype", f"{name}.get({i}) dtype {one.dtype} vs {full.dtype}"):
                    break
                if name in ("time_to_maturity", "expiry_time"):
                    tol = torch.full_like(col, 4 * eps * max(maturity, ul.dt))
                elif name == "ModuleOutput":
                    x = torch.stack([ul.spot[:, [i]], torch.ones_like(ul.spot[:, [i]])], -1)
                    tol = 64 * eps * (x.abs() @ lin.weight.abs().T + lin.bias.abs())
                else:
                    tol = 4 * eps * torch.maximum(one.abs(), col.abs())
                diff = (one - col).abs()
                ok = ((diff <= tol) | (one == col) | (one.isnan() & col.isnan())).all()
                if not ctx.check(bool(ok), "C03/feature/stepwise-vs-batched",
                                 f"round {rnd}: {name}.get({i}) differs from get(None)[:, [{i}]]: max diff {float(diff.nan_to_num(0).max()):.3e}",
                                 feature=name, step=i, one=one.flatten()[:6], col=col.flatten()[:6]):
                    break
            if rnd == 0:
                ctx.cls("feature:" + name)

    with torch.no_grad():
        compare_all(0)
        # second simulation of the same derivative object with the same number of paths (a new training batch)
        torch.manual_seed(case["sim_seed"] + 1)
        extra = case.get("extra", 0)
        with ctx.sut("C03/simulate"):
            if extra:
                # the underlier is simulated by its owner over a longer horizon than this derivative's maturity
                # (an underlier shared with a longer-dated contract): both forms of every feature see the same series
                ul.simulate(n_paths=case["n_paths"], time_horizon=deriv.maturity + extra * ul.dt)
            else:
                deriv.simulate(n_paths=case["n_paths"])
        compare_all(1)
        ctx.cls("longer-horizon:" + str(bool(extra)))
    Tn = ul.spot.shape[1]
    ctx.nontrivial(Tn >= 3)
    ctx.cls("deriv:" + case["deriv"]["type"], "ul:" + case["ul"]["type"], "T:%s" % ("1-2" if Tn < 3 else "3+"))


# ------------------------------------------------------------------------- (b) two branches
class IgnoreLast(torch.nn.Module):
    def __init__(self, model, h):
        super().__init__()
        self.model, self.h = model, h

    def forward(self, input):
        return self.model(input[..., : -self.h])


@st.composite
def branch_case(draw):
    sc = draw(scenario(models=("linear", "mlp", "naked", "bs"), allow_prev_hedge=False, min_steps=2, max_steps=8, long_horizon=40))
    sc["inputs"] = [f for f in sc["inputs"] if f != "prev_hedge"] or ["underlier_spot"]
    if sc["ul"]["type"] == "VasicekRate":
        sc["inputs"] = [f for f in sc["inputs"] if "log" not in f] or ["underlier_spot"]
    return sc


def check_branches(case, ctx):
    from pfhedge.nn import Hedger
    from pfhedge.nn.functional import pl

    objs = build_scenario(case)
    deriv, hedger, hedge = objs["derivative"], objs["hedger"], objs["hedge"]
    with ctx.sut("C03/simulate"):
        simulate(case, objs)
    H = case["n_hedges"]
    hedger2 = Hedger(IgnoreLast(objs["model"], H), list(objs["inputs"]) + ["prev_hedge"])
    eps = EPS[dtype_name(objs["dtype"])]
    grad_on = case["sim_seed"] % 2 == 1  # training evaluates with autograd, pricing without
    with torch.set_grad_enabled(grad_on):
        with ctx.sut("C03/branches/compute"):
            h1 = hedger.compute_hedge(deriv, hedge=hedge).detach()
            h2 = hedger2.compute_hedge(deriv, hedge=hedge).detach()
            ctx.check(not hedger.inputs.of(deriv, hedger).is_state_dependent()
                      and hedger2.inputs.of(deriv, hedger2).is_state_dependent(),
                      "C03/branches/harness", "the two hedgers do not exercise the two branches")
            p1, p2 = hedger.compute_pl(deriv, hedge=hedge).detach(), hedger2.compute_pl(deriv, hedge=hedge).detach()
            l1 = hedger.criterion(hedger.compute_portfolio(deriv, hedge=hedge), deriv.payoff()).detach()
            l2 = hedger2.criterion(hedger2.compute_portfolio(deriv, hedge=hedge), deriv.payoff()).detach()
    if not (torch.isfinite(h1).all() and torch.isfinite(h2).all() and torch.isfinite(p1).all() and torch.isfinite(p2).all()):
        # e.g. a variance swap / log feature on a negative Vasicek rate: NaN by definition in both modes
        ctx.check(bool((torch.isfinite(h1) == torch.isfinite(h2)).all() and (torch.isfinite(p1) == torch.isfinite(p2)).all()),
                  "C03/branches/nan-pattern", "one evaluation mode is finite where the other is not")
        ctx.cls("skipped:non-finite")
        return
    if not ctx.check(h1.shape == h2.shape, "C03/branches/hedge", f"shapes {tuple(h1.shape)} vs {tuple(h2.shape)}"):
        return
    hl = hedge_list(objs)
    spot = torch.stack([h.spot for h in hl], dim=1)
    # the model's pre-activation magnitude bounds the GEMM/GEMV discrepancy; hedges here are O(1..10)
    scale_h = 1.0 + max(float(h1.abs().max()), float(h2.abs().max()))
    if case["model"] in ("linear", "mlp"):
        x = hedger.inputs.of(deriv, hedger).get(None).detach()
        scale_h += float(x.abs().nan_to_num(0).max()) * 8
    factor = 64
    if case["model"] == "bs" and case["deriv"]["type"] in ("LookbackOption", "AmericanBinaryOption"):
        # deltas obtained by autograd through the running-maximum formulas cancel leading digits (small sigma sqrt(t)): the last-bit
        # difference between vectorised and scalar exp/log/erf kernels is amplified (condition numbers up to ~1e2 observed)
        factor = 2048
    tol_h = factor * eps * scale_h
    dh = float((h1 - h2).abs().max())
    ctx.check(dh <= tol_h, "C03/branches/hedge", f"batched and stepwise hedges differ by {dh:.3e} > {tol_h:.3e}")
    c = torch.tensor([h.cost for h in hl], dtype=spot.dtype).view(1, -1, 1)
    lip = (spot.diff(dim=-1).abs().sum((-2, -1)) + (2 * c * spot.abs()).sum((-2, -1))).max()
    tol_p = tol_h * float(lip) + 64 * eps * float((p1.abs().max() + 1))
    dp = float((p1 - p2).abs().max())
    ctx.check(dp <= tol_p, "C03/branches/pl", f"P&L of the two evaluation modes differ by {dp:.3e} > {tol_p:.3e}")
    dl = float((l1 - l2).abs())
    ctx.check(dl <= tol_p + 16 * eps * (1 + float(l1.abs())), "C03/branches/loss", f"loss differs by {dl:.3e}")
    ctx.nontrivial(H >= 2 or float(h1[..., :-1].std(dim=-1).max() if h1.shape[-1] > 2 else 0.0) > 0)
    ctx.cls("model:" + case["model"], "H:%d" % H, "deriv:" + case["deriv"]["type"])


# --------------------------------------------------------------------- (c) prev_hedge feedback
class Recording(torch.nn.Module):
    """Parameter-free user model; records what it is given and what it returns."""

    def __init__(self):
        super().__init__()
        self.H = 1
        self.calls = []

    def forward(self, input):
        s = input.nan_to_num(0.0).sum(-1, keepdim=True)
        k = torch.arange(1, self.H + 1, dtype=input.dtype)
        out = torch.tanh(s * 0.1 * k) + 0.25 * torch.cos(s * k)
        self.calls.append((input.clone(), out))
        return out


@st.composite
def feedback_case(draw):
    ul = draw(primary_spec(types=STOCKS + ["CIRRate"], dtype="any", cost=True, dts=[1 / 250, 1 / 52]))
    steps_s = st.one_of(st.integers(2, 7), st.integers(2, 7), st.integers(2, 7), st.sampled_from([3, 257, 258]))  # rarely a long contract
    rounds = draw(st.lists(st.tuples(st.integers(1, 6), steps_s, st.integers(1, 3), seed_s), min_size=1, max_size=3))
    pos = draw(st.integers(0, 2))
    others = draw(st.lists(st.sampled_from(["underlier_spot", "zeros", "moneyness", "time_to_maturity", "max_moneyness"]),
                           min_size=0, max_size=2, unique=True))
    return {"ul": ul, "rounds": [list(r) for r in rounds], "pos": pos, "others": others}


def check_feedback(case, ctx):
    import pfhedge.instruments as I
    from pfhedge.nn import Hedger

    ul = build_primary(case["ul"])
    dtype = ul.dtype or torch.get_default_dtype()
    model = Recording()
    inputs = list(case["others"])
    pos = min(case["pos"], len(inputs))
    inputs.insert(pos, "prev_hedge")
    hedger = Hedger(model, inputs)
    ever_multi = False
    for r, (n_paths, steps, H, seed) in enumerate(case["rounds"]):
        deriv = I.EuropeanOption(ul, strike=1.02, maturity=steps * ul.dt)
        hedge = [ul]
        for k in range(H - 1):
            o = I.EuropeanOption(ul, strike=1.0 + 0.05 * k, maturity=steps * ul.dt)
            o.list(listed_pricer, cost=1e-3)
            hedge.append(o)
        torch.manual_seed(seed)
        deriv.simulate(n_paths=n_paths)
        Tn = ul.spot.shape[1]
        model.H = H
        model.calls = []
        with torch.set_grad_enabled(seed % 2 == 1):
            with ctx.sut("C03/feedback/compute_hedge"):
                out = hedger.compute_hedge(deriv, hedge=hedge)
        if not ctx.check(len(model.calls) == Tn - 1, "C03/feedback/calls",
                         f"model called {len(model.calls)} times for {Tn} time points (expected {Tn - 1})", round=r):
            return
        F = len(inputs) - 1 + H
        for i, (inp, o) in enumerate(model.calls):
            if not ctx.check(tuple(inp.shape) == (n_paths, 1, F), "C03/feedback/input-shape",
                             f"round {r} step {i}: model input shape {tuple(inp.shape)} != ({n_paths},1,{F})"):
                return
            prev = inp[..., pos: pos + H]
            if i == 0:
                ok = prev.dtype == dtype and bool((prev == 0).all())
                if not ctx.check(ok, "C03/feedback/initial-state",
                                 f"round {r}: prev_hedge at step 0 is not zeros of shape (N,1,{H}) in {dtype}: {prev.flatten()[:4].tolist()} {prev.dtype}"):
                    return
            else:
                want = model.calls[i - 1][1]
                if not ctx.check(prev.shape == want.shape and bool(((prev == want) | (prev.isnan() & want.isnan())).all()),
                                 "C03/feedback/prev-is-last-output",
                                 f"round {r} step {i}: prev_hedge seen by the model is not the output of step {i - 1}",
                                 seen=prev.flatten()[:4], want=want.flatten()[:4]):
                    return
        # the hedge returned is what the model produced, step by step
        stacked = torch.cat([o for _, o in model.calls] + [model.calls[-1][1]], dim=-2).transpose(-1, -2)
        ctx.check(out.shape == stacked.shape and bool(((out == stacked) | (out.isnan() & stacked.isnan())).all()),
                  "C03/feedback/hedge-is-model-output", f"round {r}: compute_hedge does not return the model outputs")
        ever_multi = ever_multi or H >= 2
    ctx.nontrivial(ever_multi or len(case["rounds"]) >= 2)
    ctx.cls("rounds:%d" % len(case["rounds"]), "multiH:" + str(ever_multi), "ul:" + case["ul"]["type"])


META = {
    "technique": "property-based testing: differential (stepwise vs batched evaluation) and recording-model reference checks over Hypothesis-generated scenarios",
    "level_text": "Exploration: every registered feature (+Barrier, Ones, log spot, listed spot, ModuleOutput) at every step (and negative indices for time to maturity) against its batched column; two hedgers forced through the two branches; a recording model checks the prev_hedge feedback bitwise across repeated use of one hedger with changing n_paths / number of hedges.",
}

SUBS = [
    Sub("features", check_features,
        rule="derivative (6 types) x underlier (8 types, default and drawn parameters, dt in {1/250,1/52,0.01,1/12}) x "
             "1..9 steps x 1..5 paths; all applicable features x all steps. Non-trivial: at least 3 time points.",
        strategy=lambda tier: feature_case(), examples={"quick": 1600, "thorough": 16000}),
    Sub("branches", check_branches,
        rule="scenario with a state-independent input set and model in {Linear, MLP, Naked, BlackScholes}; same model "
             "evaluated through the vectorised branch and (wrapped to ignore an extra prev_hedge input) the stepwise "
             "branch. Non-trivial: H>=2 or a hedge that varies across steps.",
        strategy=lambda tier: branch_case(), examples={"quick": 1600, "thorough": 16000}),
    Sub("feedback", check_feedback,
        rule="one hedger with a recording user model used for 1..3 rounds with changing n_paths (1..6), steps (2..7) and "
             "number of hedging instruments H (1..3); prev_hedge placed at a drawn position among the inputs. "
             "Non-trivial: H>=2 in some round or at least two rounds.",
        strategy=lambda tier: feedback_case(), examples={"quick": 1600, "thorough": 16000}, fuzz={"thorough": 60.0}),
]
