import torch, math, warnings
warnings.filterwarnings("ignore")
from pfhedge.stochastic import *
torch.manual_seed(1)
N=400000
def se(x): return (x.std()/math.sqrt(len(x))).item()
def rep(name, x, expect):
    m=x.mean().item(); print(f"{name}: mean {m:.6f} expect {expect:.6f} z={(m-expect)/se(x):.2f}")
# GBM
mu,sig,dt,T=0.1,0.3,1/50,51
x=generate_geometric_brownian(N,T,init_state=(2.0,),mu=mu,sigma=sig,dt=dt,dtype=torch.float64)
t=(T-1)*dt
rep("gbm mean",x[:,-1],2*math.exp(mu*t)); l=(x[:,-1]/2).log(); print(" logvar",l.var().item(), sig**2*t)
# Merton
lam,jm,js=30.0,-0.05,0.1
x=generate_merton_jump(N,T,init_state=(2.0,),mu=mu,sigma=sig,jump_per_year=lam,jump_mean=jm,jump_std=js,dt=dt,dtype=torch.float64)
rep("merton mean",x[:,-1],2*math.exp(mu*t)); l=(x[:,-1]/2).log(); print(" logvar",l.var().item(), sig**2*t+lam*t*(js**2+jm**2))
# Kou
up,dn,p=0.05,0.08,0.3
x=generate_kou_jump(N,T,init_state=(2.0,),mu=mu,sigma=sig,jump_per_year=lam,jump_mean_up=up,jump_mean_down=dn,jump_up_prob=p,dt=dt,dtype=torch.float64)
rep("kou mean",x[:,-1],2*math.exp(mu*t)); l=(x[:,-1]/2).log(); print(" logvar",l.var().item(), sig**2*t+lam*t*(p*2*up**2+(1-p)*2*dn**2))
# CIR
for (k,th,s,v0) in [(2.0,0.09,0.3,0.02),(0.5,0.04,1.0,0.04),(3.0,0.04,0.1,0.2)]:
    x=generate_cir(N,T,init_state=(v0,),kappa=k,theta=th,sigma=s,dt=dt,dtype=torch.float64)
    e=math.exp(-k*t)
    rep(f"cir mean {k,th,s,v0}",x[:,-1], th+(v0-th)*e)
    var=v0*s*s/k*(e-e*e)+th*s*s/(2*k)*(1-e)**2
    print(" var",x[:,-1].var().item(),var, "min",x.min().item())
# Heston
for (k,th,s,rho,v0) in [(2.0,0.09,0.3,-0.7,0.02),(0.5,0.04,1.0,0.5,0.04)]:
    o=generate_heston(N,T,init_state=(2.0,v0),kappa=k,theta=th,sigma=s,rho=rho,dt=dt,dtype=torch.float64)
    rep(f"heston spot {k,th,s,rho}",o.spot[:,-1],2.0)
    r=o.spot.log().diff(dim=1); dv=o.variance.diff(dim=1)
    c=torch.corrcoef(torch.stack([r.flatten(),dv.flatten()]))[0,1].item(); print(" corr",c,"rho",rho)
# local vol
def sf(t,s): return 0.2+0.3*(s-1).abs()
o=generate_local_volatility_process(N,T,sf,init_state=(1.5,),dt=dt,dtype=torch.float64)
rep("lv mean",o.spot[:,-1],1.5)
# brownian
x=generate_brownian(N,T,init_state=(0.5,),mu=mu,sigma=sig,dt=dt,dtype=torch.float64)
rep("bm mean",x[:,-1],0.5+mu*t); print(" var",x[:,-1].var().item(),sig**2*t)
