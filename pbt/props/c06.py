"""C06 - cash() is the certainty equivalent and price() the indifference price."""
import math
from fractions import Fraction as Fr

import mpmath as mp
import torch
from hypothesis import strategies as st

from ..core import Sub
from ..gens import DTYPES, EPS, build_scenario, fl, nested, scenario, seed_s

PROPERTY_ID = "C06"
ASSUMPTIONS = [
    "cash tolerance = search precision 1e-6 + 8*eps*(N+4)*(max|x| + 1/a): evaluation noise of the criterion divided by its slope",
    "samples are kept where the default precision 1e-6 is reachable in the dtype (|x| <= 8 in float32) and a*|x| <= 20",
    "user criteria relying on the default search are monotone criteria whose certainty equivalent lies in [min, max] "
    "(expected utility, mean, worst case, best case)",
    "price(): the P&L sample is portfolio - payoff recomputed from the buffers left by price() (C01 ties it to the exact identity)",
]

mp.mp.dps = 40


# ---------------------------------------------------------------------------- criteria
def exp_u_factory(a):
    def exp_u(x):
        return -(-a * x).exp()
    return exp_u


def make_user(kind, a):
    from pfhedge.nn import HedgeLoss

    class Mean(HedgeLoss):
        def forward(self, input, target=0.0):
            return -(input - target).mean(0)

    class ExpU(HedgeLoss):
        def forward(self, input, target=0.0):
            return (-(input - target) * a).exp().mean(0)

    class PowerU(HedgeLoss):
        def forward(self, input, target=0.0):
            return -(input - target).pow(a).mean(0)

    class MeanStd(HedgeLoss):
        """mean minus 0.1 sample standard deviations (only defined for samples of at least two paths)"""

        def forward(self, input, target=0.0):
            pl = input - target
            return -(pl.mean(0) - 0.1 * pl.std(0))

    class WorstCase(HedgeLoss):
        def forward(self, input, target=0.0):
            return -(input - target).min(0).values

    class BestCase(HedgeLoss):
        def forward(self, input, target=0.0):
            return -(input - target).max(0).values

    return {"user_mean": Mean, "user_exp": ExpU, "user_power": PowerU, "user_worst": WorstCase, "user_best": BestCase,
            "user_meanstd": MeanStd}[kind]()


def build_criterion(c):
    from pfhedge.nn import EntropicLoss, EntropicRiskMeasure, ExpectedShortfall, IsoelasticLoss, QuadraticCVaR
    from pfhedge.nn.modules.loss import OCE

    k, a = c["kind"], c.get("a")
    if k == "entropic_rm":
        return EntropicRiskMeasure(a)
    if k == "entropic_loss":
        return EntropicLoss(a)
    if k == "isoelastic":
        return IsoelasticLoss(a)
    if k == "es":
        return ExpectedShortfall(c["p"])
    if k == "qcvar":
        return QuadraticCVaR(c["lam"])
    if k == "oce_exp":
        m = OCE(exp_u_factory(a))
        with torch.no_grad():
            m.w.fill_(c["w"])
        return m
    return make_user(k, a)


POSITIVE = {"isoelastic", "user_power"}
RISK_AVERSE = {"entropic_rm", "entropic_loss", "isoelastic", "es", "oce_exp", "user_exp", "user_power", "user_mean", "user_worst", "user_meanstd"}
DEFAULT_SEARCH = {"isoelastic", "oce_exp", "user_mean", "user_exp", "user_power", "user_worst", "user_best", "user_meanstd"}


@st.composite
def criterion_spec(draw, kinds=None):
    k = draw(st.sampled_from(kinds or ["entropic_rm", "entropic_loss", "isoelastic", "es", "qcvar", "oce_exp", "user_mean",
                                        "user_exp", "user_power", "user_worst", "user_best", "user_meanstd"]))
    c = {"kind": k}
    if k in ("entropic_rm", "entropic_loss", "oce_exp", "user_exp"):
        c["a"] = draw(st.sampled_from([1.0, 0.5, 2.0, 0.25, 3.0]))
    if k == "isoelastic":
        c["a"] = draw(st.sampled_from([1.0, 0.5, 0.25, 0.75]))
    if k == "user_power":
        c["a"] = draw(st.sampled_from([0.5, 0.25, 0.75]))
    if k == "es":
        c["p"] = draw(st.sampled_from([0.1, 0.25, 0.5, 0.75, 1.0, 0.01, 0.34]))
    if k == "qcvar":
        c["lam"] = draw(st.sampled_from([1.0, 2.0, 10.0, 50.0]))
    if k == "oce_exp":
        c["w"] = draw(st.sampled_from([0.0, 0.5, -0.25, 1.0]))
    return c


def ce_exact(c, col):
    """Certainty equivalent of one column (list of floats) in mpmath; None if defined by relation only."""
    k, a = c["kind"], c.get("a")
    xs = [mp.mpf(x) for x in col]
    n = len(xs)
    if k in ("entropic_rm", "entropic_loss", "user_exp"):
        return -mp.log(mp.fsum(mp.exp(-a * x) for x in xs) / n) / a
    if k == "oce_exp":
        w = mp.mpf(c["w"])
        return -mp.log(mp.fsum(mp.exp(-a * (x + w)) for x in xs) / n) / a - w
    if k == "isoelastic":
        if a == 1.0:
            return mp.exp(mp.fsum(mp.log(x) for x in xs) / n)
        return (mp.fsum(x ** (1 - a) for x in xs) / n) ** (1 / (1 - mp.mpf(a)))
    if k == "user_power":
        return (mp.fsum(x ** a for x in xs) / n) ** (1 / mp.mpf(a))
    if k == "user_mean":
        return mp.fsum(xs) / n
    if k == "user_meanstd":
        mean = mp.fsum(xs) / n
        return mean - mp.mpf("0.1") * mp.sqrt(mp.fsum((x - mean) ** 2 for x in xs) / (n - 1))
    if k == "user_worst":
        return min(xs)
    if k == "user_best":
        return max(xs)
    return None


def es_candidates(p, col):
    n = len(col)
    pn = Fr(p) * n
    ks = {math.ceil(pn)}
    r = round(pn)
    if abs(pn - r) < Fr(1, 10 ** 9):
        ks |= {max(1, r), max(1, r + 1)} if r >= 1 else {1}
    s = sorted(Fr(x) for x in col)
    return [sum(s[:k]) / k for k in ks if 1 <= k <= n]


# ---------------------------------------------------------------------------- cash
@st.composite
def cash_case(draw):
    dtype = draw(st.sampled_from(["float32", "float64", "float64"]))
    c = draw(criterion_spec())
    N = draw(st.integers(2 if c["kind"] == "user_meanstd" else 1, 12))
    shape_kind = draw(st.sampled_from(["vec", "vec", "cols", "cols", "cube"]))
    trail = {"vec": (), "cols": (draw(st.integers(1, 3)),), "cube": (2, 2)}[shape_kind]
    pos = c["kind"] in POSITIVE
    lim = 8.0 if dtype == "float32" else draw(st.sampled_from([8.0, 8.0, 1e3]))
    if c["kind"] == "entropic_rm" and draw(st.integers(0, 2)) == 0:
        # the entropic risk measure (and its cash) must not overflow for any finite sample: a|x| far beyond the exponent range
        lim = draw(st.sampled_from([50.0, 300.0, 1e3]))
    elif c.get("a"):
        lim = min(lim, 20.0 / c["a"])
    if c["kind"] == "oce_exp":
        lim = min(lim, 6.0)
    if pos:
        el = st.one_of(fl(0.05, min(lim, 8.0), dtype), st.sampled_from([1.0, 0.5, 2.0]))
    else:
        el = st.one_of(fl(-lim, lim, dtype), fl(-1.0, 1.0, dtype), st.sampled_from([0.0, 1.0, -1.0, 0.5]))
    const = draw(st.integers(0, 5)) == 0
    if const:
        row = draw(nested(trail, el))
        data = [row for _ in range(N)]
    else:
        data = draw(nested((N,) + trail, el))
    tk = draw(st.sampled_from(["none", "none", "scalar", "tensor"]))
    target = None
    if pos:
        tk = "none" if tk == "tensor" else tk
    if tk == "scalar":
        target = draw(st.sampled_from([0.25, -0.5, 1.0])) if not pos else -0.25
    elif tk == "tensor":
        target = draw(nested((N,) + trail, st.sampled_from([0.0, 0.25, -0.5, 1.0])))
    return {"dtype": dtype, "crit": c, "data": data, "target": target, "const": const}


def columns(t: torch.Tensor):
    flat = t.reshape(t.shape[0], -1)
    return [flat[:, j].tolist() for j in range(flat.shape[1])]


def check_cash(case, ctx):
    c = case["crit"]
    dt = DTYPES[case["dtype"]]
    eps = EPS[case["dtype"]]
    x = torch.tensor(case["data"], dtype=dt)
    crit = build_criterion(c)
    tgt = case["target"]
    if isinstance(tgt, list):
        tgt_t = torch.tensor(tgt, dtype=dt)
        plv = x - tgt_t
    elif tgt is not None:
        tgt_t = tgt
        plv = x - tgt
    else:
        tgt_t = None
        plv = x
    x0 = x.clone()
    with torch.no_grad():
        with ctx.sut("C06/cash"):
            cash = crit.cash(x) if tgt_t is None else crit.cash(x, tgt_t)
            loss_x = crit(x) if tgt_t is None else crit(x, tgt_t)
    ctx.check(torch.equal(x, x0), "C06/cash/mutates", "cash() modified its input")
    trail = tuple(x.shape[1:])
    if not ctx.check(tuple(cash.shape) == trail, "C06/cash/shape", f"cash shape {tuple(cash.shape)} for sample {tuple(x.shape)}"):
        return
    N = x.shape[0]
    cols = columns(plv)
    cash_cols = cash.reshape(-1).tolist()
    loss_cols = loss_x.reshape(-1).tolist()
    a = c.get("a") or 1.0
    for j, col in enumerate(cols):
        lo, hi = min(col), max(col)
        scale = max(abs(lo), abs(hi)) + 1.0 / a
        tol = 1e-6 + 8 * eps * (N + 4) * scale
        g = cash_cols[j]
        if not ctx.check(g == g, "C06/cash/nan", f"cash is NaN for column {j}"):
            return
        if c["kind"] == "qcvar":
            ctx.check(abs(g + loss_cols[j]) <= 4 * eps * (abs(g) + 1), "C06/cash/qcvar-is-minus-risk",
                      f"QuadraticCVaR.cash {g!r} != -loss {-loss_cols[j]!r}")
            continue
        ctx.check(lo - tol <= g <= hi + tol, "C06/cash/within-range", f"cash {g!r} outside [min,max]=[{lo!r},{hi!r}]",
                  crit=c["kind"])
        if c["kind"] == "es":
            cands = es_candidates(c["p"], col)
            ok = any(abs(Fr(g) - w) <= Fr(tol) for w in cands)
            ctx.check(ok, "C06/cash/certainty-equivalent", f"ES cash {g!r} != mean of worst outcomes {[float(w) for w in cands]}")
            want = float(cands[0])
        else:
            want_mp = ce_exact(c, col)
            want = float(want_mp)
            if c["kind"] == "oce_exp" and c.get("w"):
                # conditioning of the search: the criterion of a constant, w + exp(-a (c + w)), is resolved to eps * (|w| + e)
                # while its slope is only a * e (e = exp(-a (c + w))): the certainty equivalent is resolved to eps (|w| + e) / (a e)
                e_ = math.exp(-a * (want + c["w"]))
                tol = tol + 4 * eps * (abs(c["w"]) + e_) / (a * e_)
            ctx.check(abs(g - want) <= tol, "C06/cash/certainty-equivalent",
                      f"{c['kind']} cash {g!r} but certainty equivalent {want!r} (tol {tol:.2e})", column=j)
        if c["kind"] in RISK_AVERSE:
            mean = float(sum(Fr(v) for v in col) / len(col))
            ctx.check(g <= mean + tol, "C06/cash/exceeds-mean", f"risk-averse {c['kind']} cash {g!r} > mean {mean!r}")
    # "as good as the sample": criterion of the constant sample at cash equals criterion of the sample
    if c["kind"] != "qcvar":
        const = cash.expand_as(plv).clone() if cash.dim() else torch.full_like(plv, float(cash))
        with torch.no_grad():
            with ctx.sut("C06/cash/criterion-of-constant"):
                loss_c = crit(const)
        lc = loss_c.reshape(-1).tolist()
        for j, col in enumerate(cols):
            lo, hi = min(col), max(col)
            # slope of c -> criterion(constant c) over [lo, hi], from the definition
            slope = max_slope(c, lo, hi)
            tol_l = slope * (1e-6 + 8 * eps * (N + 4) * (max(abs(lo), abs(hi)) + 1.0 / a)) + 8 * eps * (N + 4) * (abs(loss_cols[j]) + 1e-30)
            ctx.check(abs(lc[j] - loss_cols[j]) <= tol_l, "C06/cash/as-good-as-sample",
                      f"{c['kind']}: criterion(constant cash)={lc[j]!r} vs criterion(sample)={loss_cols[j]!r} (tol {tol_l:.2e})")
    nonconst = any(len(set(col)) > 1 for col in cols)
    ctx.nontrivial(nonconst)
    ctx.cls("crit:" + c["kind"], "dtype:" + case["dtype"], "shape:%d" % len(x.shape), "const:" + str(case["const"]),
            "search:" + ("default" if c["kind"] in DEFAULT_SEARCH else "closed-form"))
    if len(cols) > 1:
        ctx.cls("multi-column")


def max_slope(c, lo, hi):
    k, a = c["kind"], c.get("a")
    if k in ("entropic_loss", "user_exp"):
        return a * math.exp(-a * lo)
    if k == "oce_exp":
        return a * math.exp(-a * (lo + c["w"]))
    if k == "isoelastic":
        return 1.0 / lo if a == 1.0 else (1 - a) * lo ** (-a)
    if k == "user_power":
        return a * lo ** (a - 1)
    return 1.0


# ---------------------------------------------------------------------------- price
@st.composite
def price_case(draw):
    sc = draw(scenario(models=("linear", "naked", "bs", "mlp"), dtype="float64", max_paths=24, min_steps=2, max_steps=6,
                       extra_features=False))
    if sc["ul"]["type"] == "VasicekRate":
        sc["ul"]["type"], sc["ul"]["params"] = "CIRRate", {}
    if sc["deriv"]["type"] == "VarianceSwap" and sc["ul"]["type"] == "CIRRate":
        sc["deriv"]["type"] = "EuropeanForwardStartOption"
        sc["deriv"]["strike"], sc["deriv"]["start_steps"] = 1.0, 0
    sc["n_paths"] = max(2, sc["n_paths"])
    sc["crit"] = draw(criterion_spec(kinds=["entropic_rm", "entropic_loss", "es", "qcvar", "user_exp", "user_mean", "isoelastic", "user_power"]))
    sc["shift"] = draw(st.sampled_from([0.5, -0.25, 2.0, 0.125]))
    sc["n_times"] = draw(st.integers(2, 3))
    return sc


def check_price(case, ctx):
    objs = build_scenario(case)
    deriv, hedger, hedge = objs["derivative"], objs["hedger"], objs["hedge"]
    c = case["crit"]
    hedger.criterion = build_criterion(c)
    n = case["n_paths"]
    seed = case["sim_seed"]
    eps = EPS["float64"]
    if c["kind"] in POSITIVE:
        # power / log utilities need a positive P&L: the contract pays 5 less (an endowment, registered as a clause);
        # their certainty equivalent is NOT translation invariant, so the price really is -CE(portfolio - payoff)
        deriv.add_clause("endowment", lambda d, payoff: payoff - 5.0)

    init = None
    if seed % 3 == 0 and case["ul"]["type"] in ("BrownianStock", "MertonJumpStock", "KouJumpStock", "LocalVolatilityStock"):
        init = (1.0 + (seed % 7 - 3) / 16.0,)  # quotes are made from today's spot, not from the default initial state

    def price(**kw):
        torch.manual_seed(seed)
        if init is not None:
            kw["init_state"] = init
        return hedger.price(deriv, hedge=hedge, n_paths=n, **kw)

    def samples_finite(k_):
        """Replays the k_ consecutive simulations price() makes under this seed: are all P&L samples finite?  (A hedge of NaN
        on a zero-variance step - known findings K3 / K3-hedger - or a rate that touched zero under a ratio payoff gives a
        non-finite sample, which no criterion accepts; such cases are outside the statement and counted as skipped.)"""
        torch.manual_seed(seed)
        ok = True
        with torch.no_grad():
            for _ in range(k_):
                deriv.simulate(n_paths=n, **({"init_state": init} if init is not None else {}))
                smp = hedger.compute_portfolio(deriv, hedge=hedge) - deriv.payoff()
                ok = ok and bool(torch.isfinite(smp).all())
        return ok

    with ctx.sut("C06/price/simulate"):
        finite1 = samples_finite(1)
    if not finite1:
        ctx.cls("skipped:non-finite-sample")
        return
    with ctx.sut("C06/price"):
        p0 = price()
        with torch.no_grad():
            sample = hedger.compute_portfolio(deriv, hedge=hedge) - deriv.payoff()
    s0 = deriv.ul().spot
    ctx.check(s0.shape[0] == n, "C06/price/simulated-paths", f"price(n_paths={n}) left {s0.shape[0]} simulated paths")
    if init is not None:
        ctx.check(bool((s0[:, 0] == torch.tensor(init[0], dtype=s0.dtype)).all()), "C06/price/simulated-paths",
                  f"price(init_state={init}) simulated paths starting at {s0[:2, 0].tolist()}")
        ctx.cls("price:init_state-given")
    if not torch.isfinite(sample).all():
        ctx.cls("skipped:non-finite-sample")
        return
    ctx.check(p0.dim() == 0, "C06/price/shape", f"price has shape {tuple(p0.shape)}")
    ctx.check(not p0.requires_grad and p0.grad_fn is None, "C06/price/graph", "price() carries a graph by default")
    col = sample.tolist()
    lo, hi = min(col), max(col)
    a = c.get("a") or 1.0
    if a * max(abs(lo), abs(hi)) > 30 or (c["kind"] in POSITIVE and lo <= 0.5):
        ctx.cls("skipped:extreme-sample")
        return
    N = len(col)
    tol = 1e-6 + 8 * eps * (N + 4) * (max(abs(lo), abs(hi)) + 1.0 / a)
    g = float(p0)
    # (a) price == -cash(portfolio - payoff)
    if c["kind"] == "es":
        cands = es_candidates(c["p"], col)
        ctx.check(any(abs(Fr(-g) - w) <= Fr(tol) for w in cands), "C06/price/indifference",
                  f"ES price {g!r} != -(mean of worst outcomes) {[-float(w) for w in cands]}")
    elif c["kind"] == "qcvar":
        with torch.no_grad():
            want = float(hedger.criterion(sample))
        ctx.check(abs(g - want) <= 1e-9 * (1 + abs(want)), "C06/price/qcvar-is-risk", f"QCVaR price {g!r} != risk {want!r}")
    else:
        want = -float(ce_exact(c, col))
        ctx.check(abs(g - want) <= tol, "C06/price/indifference",
                  f"{c['kind']} price {g!r} but -(certainty equivalent of portfolio - payoff) = {want!r}")
    # (c) entropic risk measure: price equals the loss on the same paths
    if c["kind"] == "entropic_rm":
        torch.manual_seed(seed)
        with ctx.sut("C06/compute_loss"):
            l0 = hedger.compute_loss(deriv, hedge=hedge, n_paths=n, enable_grad=False, **({"init_state": init} if init is not None else {}))
        ctx.check(abs(float(l0) - g) <= 16 * eps * (1 + abs(g)), "C06/price/equals-entropic-loss", f"price {g!r} != loss {float(l0)!r}")
    # (d) n_times averages consecutive evaluations of the same RNG stream
    k = case["n_times"]
    with ctx.sut("C06/price/simulate"):
        finite_k = samples_finite(k)
    if not finite_k:
        ctx.cls("skipped:non-finite-sample-in-later-batch")
        return
    with ctx.sut("C06/price/n_times"):
        pk = price(n_times=k)
        torch.manual_seed(seed)
        singles = [float(hedger.price(deriv, hedge=hedge, n_paths=n, **({"init_state": init} if init is not None else {}))) for _ in range(k)]
    ctx.check(abs(float(pk) - sum(singles) / k) <= 16 * eps * (1 + abs(float(pk))), "C06/price/n_times",
              f"price(n_times={k}) = {float(pk)!r} but mean of {k} consecutive evaluations = {sum(singles) / k!r}")
    # (b) payoff + k raises the price by exactly k (cash-invariant criteria)
    if c["kind"] in ("entropic_rm", "entropic_loss", "es", "qcvar", "user_exp", "user_mean"):
        sh = case["shift"]
        deriv.add_clause("shift", lambda d, payoff: payoff + sh)
        with ctx.sut("C06/price/shifted"):
            p1 = price()
        rng = hi - lo
        tol_b = (2 * tol if c["kind"] != "qcvar" else 2e-5 * max(1.0, rng))
        ctx.check(abs(float(p1) - g - sh) <= tol_b, "C06/price/cash-invariance",
                  f"{c['kind']}: adding {sh} to the payoff moved the price from {g!r} to {float(p1)!r}")
    ctx.nontrivial(hi > lo and bool((hedger.compute_hedge(deriv, hedge=hedge) != 0).any()))
    ctx.cls("crit:" + c["kind"], "model:" + case["model"], "deriv:" + case["deriv"]["type"], "hedge:" + case["hedge"])


def known_k5(case, violation) -> bool:
    """K5 (same root cause as in C04/C05): QuadraticCVaR.cash = -quadratic_cvar raises the max_iter RuntimeError for a float32
    sample whose range is below the resolution of float32 at its level (e.g. a constant): the derived bisection precision is unreachable."""
    if violation["label"] != "C06/cash/raises" or "max_iter" not in (violation.get("msg") or violation.get("message") or ""):
        return False
    if case.get("crit", {}).get("kind") != "qcvar" or case.get("dtype") != "float32":
        return False
    x = torch.tensor(case["data"], dtype=torch.float32)
    if case.get("target") is not None:
        x = x - torch.as_tensor(case["target"], dtype=torch.float32)
    flat = x.reshape(x.shape[0], -1)
    rng = flat.max(0).values - flat.min(0).values
    return bool((rng <= 8 * EPS["float32"] * flat.abs().max(0).values).any())


KNOWN = {"K5": known_k5}

META = {
    "technique": "property-based testing: Hypothesis-generated samples/criteria/hedging scenarios vs mpmath certainty equivalents, exact order statistics and metamorphic relations (shift, n_times, loss==price)",
    "level_text": "Exploration: cash() of every built-in criterion and of user criteria that rely on the default search (incl. multi-column, constant, targeted samples) against 40-digit certainty equivalents, range and mean bounds and the 'as good as the sample' relation; Hedger.price against -CE(portfolio-payoff), exact shift by payoff constants, n_times averaging, no graph.",
}

SUBS = [
    Sub("cash", check_cash,
        rule="criterion in {EntropicRiskMeasure, EntropicLoss, IsoelasticLoss, ExpectedShortfall, QuadraticCVaR, OCE(exp), user "
             "HedgeLoss subclasses mean/exp/power/worst/best using the default search}; samples N<=12 with trailing shapes (), "
             "(M), (2,2), constants (1 in 6), scalar/tensor targets, float32/float64. Non-trivial: some column is not constant.",
        strategy=lambda tier: cash_case(), examples={"quick": 6400, "thorough": 64000}),
    Sub("price", check_price,
        rule="hedging scenario (float64, 2..24 paths, 2..6 steps, Linear/MLP/Naked/BlackScholes) x criterion in {entropic RM, "
             "entropic loss, ES, QCVaR, user exp/mean via default search}; drawn torch seed fixed for all compared quantities. "
             "Non-trivial: non-constant P&L sample and a non-zero hedge.",
        strategy=lambda tier: price_case(), examples={"quick": 1600, "thorough": 16000}),
]
