"""Exact rational oracles (fractions.Fraction) evaluated on the float inputs."""
from fractions import Fraction as Fr
from typing import List, Optional, Sequence, Tuple

import numpy as np


def round_to(x: float, dtype: str) -> float:
    """Value of the Python float ``x`` once stored in ``dtype`` (IEEE round-to-nearest-even)."""
    if dtype == "float32":
        return float(np.float32(x))
    if dtype == "float16":
        return float(np.float16(x))
    if dtype == "float64":
        return float(x)
    if dtype == "bfloat16":
        import torch

        return float(torch.tensor(x, dtype=torch.bfloat16))
    raise ValueError(dtype)


def pl_exact(spot, unit, cost: Optional[Sequence[float]], payoff: Optional[Sequence[float]],
             first: bool) -> Tuple[List[Fr], List[Fr]]:
    """Self-financing wealth identity, per path.

    spot, unit: nested lists [N][H][T] of floats.  Returns (value, sum of |terms|) per path:
      -Z + sum_h sum_t unit[t] (S[t+1]-S[t]) - c_h |unit[t+1]-unit[t]| S[t+1] - [first] c_h |unit[0]| S[0]
    """
    out, mag = [], []
    for n in range(len(spot)):
        v = Fr(0)
        a = Fr(0)
        for h in range(len(spot[n])):
            S = [Fr(x) for x in spot[n][h]]
            U = [Fr(x) for x in unit[n][h]]
            c = Fr(cost[h]) if cost is not None else None
            for t in range(len(S) - 1):
                g = U[t] * (S[t + 1] - S[t])
                v += g
                a += abs(g)
                if c is not None:
                    k = c * abs(U[t + 1] - U[t]) * S[t + 1]
                    v -= k
                    a += abs(k)
            if c is not None and first:
                k = c * abs(U[0]) * S[0]
                v -= k
                a += abs(k)
        if payoff is not None:
            v -= Fr(payoff[n])
            a += abs(Fr(payoff[n]))
        out.append(v)
        mag.append(a)
    return out, mag
