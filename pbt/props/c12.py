"""C12 - Payoffs equal their contractual definitions and ordering."""
import math
from fractions import Fraction as Fr

import mpmath as mp
import torch
from hypothesis import strategies as st

from ..core import Sub
from ..gens import DT_CHOICES, DTYPES, EPS, fl
from ..oracles import payoffs as O
from ..oracles.exact import round_to

PROPERTY_ID = "C12"
ASSUMPTIONS = [
    "price paths are written into the underlier with register_buffer('spot', ...), so a path is generated data",
    "prices, strikes, barriers and clause constants are representable in the dtype of the buffer (float32 cases use a "
    "dyadic grid), so no representation step of a Python scalar enters a comparison; float64 cases also use decimal strikes",
    "option payoffs: one rounding of the exact difference (tolerance eps*|exact|), binaries bitwise 0/1",
    "forward start: tolerance 4*eps*max(ratio, K); when start/dt is within 8 ulps of an integer k the start index is k (the grid point itself; repaired in /repo, F18), otherwise floor(start/dt)",
    "variance swap: 40-digit mpmath value with the a-priori forward bound of log->diff->square->mean->/dt (2-ulp logs) "
    "plus 2*eps*(|rv|+|K|) for the strike subtraction; T>=2 (a single point has no return)",
    "clauses: payoff() is compared with the exact composition, in registration order, applied to the float payoff_fn() "
    "(itself compared with the contract) with a propagated rounding bound",
]

OPTION_FNS = ["european", "lookback", "european_binary", "american_binary"]
OVERFLOW_GUARD = {EPS["float32"]: Fr(10) ** 30, EPS["float64"]: Fr(10) ** 300}
OPTION_CLS = {"european": "EuropeanOption", "lookback": "LookbackOption",
              "european_binary": "EuropeanBinaryOption", "american_binary": "AmericanBinaryOption"}


# ------------------------------------------------------------------------------------ generators
_J = st.one_of(st.integers(-6, 6), st.integers(-6, 6), st.sampled_from([0, 0, 1, -1]))


@st.composite
def grid_paths(draw, dtype, min_T=1, max_T=8, max_N=5, unit_centre=False, free=False, rates=False):
    """-> dict(spot [N][T], strike, barrier_pool): positive prices K0 + j*h on a grid that is exact in ``dtype``
    (float64 additionally: decimal centres K0*(1+j/100)); the strike is a grid point, mostly the centre."""
    N, T = draw(st.integers(1, max_N)), draw(st.integers(min_T, max_T))
    modes = ["dyadic", "dyadic", "dyadic"] + (["decimal"] if dtype == "float64" else []) + (["free"] if free else []) + \
        (["rates"] if rates and not unit_centre else [])
    mode = draw(st.sampled_from(modes))
    js = [[draw(_J) for _ in range(T)] for _ in range(N)]
    jk = draw(st.sampled_from([0, 0, 0, 0, 1, -1, 2, -2]))
    jb = draw(st.integers(-3, 7))
    if mode == "dyadic":
        k0 = 1.0 if unit_centre else draw(st.integers(16, 128)) / 32.0
        h = 2.0 ** -draw(st.sampled_from([4, 4, 6, 10, 16]))
        val = lambda j: k0 + j * h  # exact: <= 19 significant bits
    elif mode == "rates":
        # an interest-rate underlier (VasicekRate): levels around zero, negative values and non-positive strikes
        k0 = draw(st.sampled_from([0.0, 0.0, -0.25, 0.03125, -0.015625]))
        h = 2.0 ** -draw(st.sampled_from([4, 6, 10]))
        val = lambda j: k0 + j * h
    elif mode == "decimal":
        k0 = 1.0 if unit_centre else draw(st.sampled_from([1.0, 1.1, 0.9, 1.03, 100.0, 2.5, 0.35]))
        val = lambda j: k0 if j == 0 else k0 * (1.0 + j / 100.0)
    else:
        k0 = 1.0 if unit_centre else draw(st.sampled_from([1.0, 1.1, 0.9, 100.0]))
        pool = [round_to(k0 * draw(fl(0.5, 2.0, dtype)), dtype) for _ in range(4)] + [round_to(k0, dtype)]
        val = lambda j: pool[j % len(pool)]
        jk = 4  # the strike is the centre
    spot = [[val(j) for j in row] for row in js]
    return {"mode": mode, "spot": spot, "strike": val(jk), "barrier": val(jb)}


@st.composite
def clause_list(draw, g, max_len=4):
    """Clause specs from a non-commuting algebra; constants are small dyadics / grid points (exact in float32)."""
    n = draw(st.sampled_from([0, 0, 1, 2, 2, 3, max_len]))
    out = []
    for _ in range(n):
        kind = draw(st.sampled_from(["affine", "affine", "cap", "floor", "knockout", "square"]))
        if kind == "affine":
            out.append({"kind": kind, "a": draw(st.sampled_from([2.0, 0.5, -1.0, 3.0, -0.25, 1.0])),
                        "b": draw(st.sampled_from([0.0, 0.125, -0.0625, 1.0, -0.5]))})
        elif kind in ("cap", "floor"):
            out.append({"kind": kind, "c": draw(st.sampled_from([0.0, 0.0625, 0.125, 0.25, 1.0, -0.125, 2.0 ** -8]))})
        elif kind == "knockout":
            out.append({"kind": kind, "barrier": g["barrier"]})
        else:
            out.append({"kind": kind})
    return out


@st.composite
def functional_case(draw):
    dtype = draw(st.sampled_from(["float32", "float64", "float64"]))
    defaults = draw(st.integers(0, 3)) == 0
    g = draw(grid_paths(dtype, unit_centre=defaults))
    T = len(g["spot"][0])
    return {"dtype": dtype, "spot": g["spot"], "strike": 1.0 if defaults else g["strike"], "defaults": defaults,
            "lead": draw(st.sampled_from([0, 1, 1, 1, 2])),
            "start_index": draw(st.integers(-T, T - 1)),
            "end_index": draw(st.one_of(st.none(), st.integers(-T, T - 1))),
            "dt": draw(st.sampled_from(DT_CHOICES)), "dt_tensor": draw(st.booleans())}


@st.composite
def options_case(draw):
    dtype = draw(st.sampled_from(["float32", "float64", "float64"]))
    defaults = draw(st.integers(0, 4)) == 0
    g = draw(grid_paths(dtype, unit_centre=defaults, rates=True))
    return {"dtype": dtype, "spot": g["spot"], "strike": 1.0 if defaults else g["strike"], "defaults": defaults, "mode": g["mode"],
            "call": True if defaults else draw(st.booleans()),
            "type": draw(st.sampled_from(OPTION_FNS)), "clauses": draw(clause_list(g)),
            "dt": draw(st.sampled_from(DT_CHOICES))}


@st.composite
def forward_start_case(draw):
    dtype = draw(st.sampled_from(["float32", "float64", "float64"]))
    g = draw(grid_paths(dtype, free=True))
    T = len(g["spot"][0])
    dt = draw(st.sampled_from(DT_CHOICES + [0.004, 0.3]))
    k = draw(st.integers(0, T - 1))
    frac = 0.0
    if k < T - 1:
        frac = draw(st.sampled_from([0.0, 0.0, 0.0, 0.25, 0.5, 0.75, 0.999, 0.001, 0.51, 0.49]))
    kind = draw(st.sampled_from(["product", "product", "sum", "quotient"]))
    if kind == "quotient" and frac == 0.0 and round(1 / dt) > 0 and abs(round(1 / dt) * dt - 1) < 1e-9:
        start = k / round(1 / dt)  # k/250 written the usual way
    elif kind != "sum" or frac != 0.0:
        start = (k + frac) * dt
    else:
        start = 0.0
        for _ in range(k):
            start += dt  # accumulated grid time: lands an ulp or two off k*dt
    strike = draw(st.sampled_from([1.0, 1.0, 1.0, 0.9375, 1.0625, 0.5, 1.0 + 2.0 ** -10, 0.0]))
    return {"dtype": dtype, "spot": g["spot"], "barrier": g["barrier"], "strike": strike, "dt": dt, "start": start,
            "k": k, "frac": frac, "clauses": draw(clause_list(g, max_len=3)), "default_strike": strike == 1.0 and draw(st.booleans())}


@st.composite
def variance_swap_case(draw):
    dtype = draw(st.sampled_from(["float32", "float64", "float64"]))
    g = draw(grid_paths(dtype, min_T=2, free=True))
    return {"dtype": dtype, "spot": g["spot"], "barrier": g["barrier"],
            "strike": draw(st.sampled_from([0.04, 0.04, 0.0, 0.1, 0.25, 1.5])),
            "default_strike": draw(st.booleans()),
            "dt": draw(st.sampled_from(DT_CHOICES)), "clauses": draw(clause_list(g, max_len=3))}


# ------------------------------------------------------------------------------------ helpers
def _underlier(case):
    from pfhedge.instruments import BrownianStock

    ul = BrownianStock(dt=case["dt"], dtype=DTYPES[case["dtype"]])
    ul.register_buffer("spot", torch.tensor(case["spot"], dtype=DTYPES[case["dtype"]]))
    return ul


def _path_classes(ctx, spot, strike):
    """Counters + the non-trivial flag: tie with the strike or an interior extreme."""
    tie = any(x == strike for p in spot for x in p)
    tie_T = any(p[-1] == strike for p in spot)
    interior_max = any(max(p) > p[-1] for p in spot)
    interior_min = any(min(p) < p[-1] for p in spot)
    tie_ext = any(max(p) == strike or min(p) == strike for p in spot)
    repeat = any(len(set(p)) < len(p) for p in spot)
    T = len(spot[0])
    ctx.cls("T:%d" % T if T <= 2 else "T:>=3")
    for flag, name in ((tie_T, "tie:terminal=strike"), (tie_ext, "tie:extreme=strike"), (interior_max, "interior:max"),
                       (interior_min, "interior:min"), (repeat, "tie:within-path")):
        if flag:
            ctx.cls(name)
    return tie or interior_max or interior_min


def _values(ctx, label, got, N):
    """shape (N,) -> list of python floats, or None after a shape violation."""
    if not ctx.check(tuple(got.shape) == (N,), label + "/shape", f"payoff shape {tuple(got.shape)} != ({N},)"):
        return None
    return [float(x) for x in got.tolist()]


def _cmp_exact(ctx, label, got, want, eps, what):
    """got: list of floats, want: list of Fractions; one rounding of the exact value is allowed."""
    for n, (g, w) in enumerate(zip(got, want)):
        if not math.isfinite(g) or abs(Fr(g) - w) > Fr(eps) * abs(w):
            ctx.fail(label, f"{what} path {n}: got {g!r}, contract {float(w)!r}", path=n, got=g, want=float(w))
            return False
    return True


def _relations(ctx, prefix, vals, spot, strike, eps):
    """vals[(name, call)] -> list of floats.  Ordering relations stated by the property."""
    for call in (True, False):
        eu, lb = vals.get(("european", call)), vals.get(("lookback", call))
        if eu is not None:
            ctx.check(all(x >= 0 for x in eu), prefix + "/relation/european>=0", f"negative European payoff (call={call})", got=eu)
        if eu is not None and lb is not None:
            ctx.check(all(a >= b for a, b in zip(lb, eu)), prefix + "/relation/lookback>=european",
                      f"lookback below European (call={call})", lookback=lb, european=eu)
        eb, ab = vals.get(("european_binary", call)), vals.get(("american_binary", call))
        if eb is not None and ab is not None:
            ctx.check(all(a >= b for a, b in zip(ab, eb)), prefix + "/relation/american>=european-binary",
                      f"American binary below European binary (call={call})", american=ab, european=eb)
    c, p = vals.get(("european", True)), vals.get(("european", False))
    if c is not None and p is not None:
        for n, (a, b) in enumerate(zip(c, p)):
            w = Fr(spot[n][-1]) - Fr(strike)
            if abs(Fr(a) - Fr(b) - w) > 2 * Fr(eps) * abs(w):
                ctx.fail(prefix + "/relation/call-put", f"path {n}: call-put = {a - b!r}, S_T-K = {float(w)!r}", path=n)
                break


# ------------------------------------------------------------------------------------ A: functional forms
def check_functional(case, ctx):
    import pfhedge.nn.functional as F

    dtype, eps = case["dtype"], EPS[case["dtype"]]
    spot, strike = case["spot"], case["strike"]
    base = torch.tensor(spot, dtype=DTYPES[dtype])
    lead = case["lead"]
    if lead == 0:
        spot = spot[:1]
        x, shape = base[0], ()
        flat = lambda out: out.reshape(1)
    elif lead == 1:
        x, shape = base, (len(spot),)
        flat = lambda out: out
    else:
        x, shape = torch.stack([base, base.flip(0)]), (2, len(spot))
        flat = lambda out: out[0]
    x0 = x.clone()
    N, T = len(spot), len(spot[0])
    vals = {}
    for name in OPTION_FNS:
        fn = getattr(F, name + "_payoff")
        for call in ((True,) if case["defaults"] else (True, False)):
            label = "C12/fn/" + name
            with ctx.sut(label):
                if case["defaults"]:
                    out = fn(x)
                elif N % 2:  # documented positional order (input, call, strike); the table is the oracle's, not read from the code
                    out = fn(x, call, strike)
                else:
                    out = fn(x, call=call, strike=strike)
            if not ctx.check(tuple(out.shape) == shape, label + "/shape", f"shape {tuple(out.shape)} != {shape} for input {tuple(x.shape)}"):
                continue
            if lead == 2 and not ctx.check(torch.equal(out[1], out[0].flip(0)), label + "/batch", "leading batch dimension not treated elementwise"):
                continue
            got = [float(v) for v in flat(out).tolist()]
            want = [O.EXACT[name](p, call, strike) for p in spot]
            if _cmp_exact(ctx, label + "/value", got, want, eps, f"{name}(call={call}, strike={strike})"):
                vals[(name, call)] = got
    _relations(ctx, "C12/fn", vals, spot, strike, eps)

    # forward start with explicit indices
    si, ei = case["start_index"], case["end_index"]
    label = "C12/fn/forward_start"
    with ctx.sut(label):
        if ei is None and N % 2:
            out = F.european_forward_start_payoff(x, strike, si)  # documented order (input, strike, start_index, end_index)
        elif ei is None:
            out = F.european_forward_start_payoff(x, strike=strike, start_index=si)
        else:
            out = F.european_forward_start_payoff(x, strike=strike, start_index=si, end_index=ei)
    if ctx.check(tuple(out.shape) == shape, label + "/shape", f"shape {tuple(out.shape)} != {shape}"):
        for n, g in enumerate(flat(out).tolist()):
            w, scale = O.forward_start(spot[n], strike, si, -1 if ei is None else ei)
            if not math.isfinite(g) or abs(Fr(g) - w) > 4 * Fr(eps) * scale:
                ctx.fail(label + "/value", f"path {n}: got {g!r}, contract {float(w)!r} (start {si}, end {ei})", path=n)
                break

    # realised variance / volatility
    if T >= 2:
        dt = case["dt"]
        dt_arg = torch.tensor(dt, dtype=DTYPES[dtype]) if case["dt_tensor"] else dt
        dt_used = round_to(dt, dtype) if case["dt_tensor"] else dt
        with ctx.sut("C12/fn/realized_variance"):
            rv = F.realized_variance(x, dt=dt_arg)
            rvol = F.realized_volatility(x, dt=dt_arg)
        if ctx.check(tuple(rv.shape) == shape and tuple(rvol.shape) == shape, "C12/fn/realized_variance/shape",
                     f"shapes {tuple(rv.shape)}, {tuple(rvol.shape)} != {shape}"):
            _cmp_realized(ctx, "C12/fn", flat(rv).tolist(), flat(rvol).tolist(), spot, dt_used, eps)
    ctx.check(torch.equal(x, x0), "C12/fn/mutates", "a payoff function modified its input")
    nt = _path_classes(ctx, spot, strike)
    ctx.nontrivial(nt)
    ctx.cls("dtype:" + dtype, "input-dims:%d" % (lead + 1), "defaults:" + str(case["defaults"]))


def _cmp_realized(ctx, prefix, rv, rvol, spot, dt, eps):
    with mp.workdps(O.MP_DPS):
        for n, p in enumerate(spot):
            val, bound = O.realized_variance_mp(p, dt, eps, dt_rel_err=eps)
            g = rv[n]
            if g != g or abs(mp.mpf(g) - val) > bound:
                ctx.fail(prefix + "/realized_variance/value",
                         f"path {n}: got {g!r}, definition {float(val)!r}, bound {float(bound):.3e}", path=n)
                return
            lo, hi = mp.sqrt(max(val - bound, 0)), mp.sqrt(val + bound)
            gv = rvol[n]
            if gv != gv or not (lo * (1 - 2 * eps) <= mp.mpf(gv) <= hi * (1 + 2 * eps)):
                ctx.fail(prefix + "/realized_volatility/value",
                         f"path {n}: got {gv!r}, sqrt of definition {float(mp.sqrt(val))!r}", path=n)
                return


# ------------------------------------------------------------------------------------ B: option classes
def _register(deriv, specs):
    made = {}
    for i, s in enumerate(specs):
        key = repr(sorted(s.items()))
        if key not in made:  # the same clause object may be registered under several names (e.g. a fee charged twice)
            made[key] = O.make_clause(s)
        # names whose alphabetical order is not the registration order (the contract is registration order)
        deriv.add_clause("%s%d_%s" % ("mazcxbyd"[i % 8], i, s["kind"]), made[key])


def _check_clauses(ctx, label, deriv, specs, base_vals, spot, eps):
    """payoff() == clauses applied in registration order to payoff_fn()."""
    N = len(spot)
    _register(deriv, specs)
    with ctx.sut(label + "/payoff"):
        out = deriv.payoff()
        again = deriv.payoff_fn()
    got = _values(ctx, label + "/payoff", out, N)
    if got is None:
        return
    ctx.check([float(v) for v in again.tolist()] == base_vals, label + "/payoff_fn-changed",
              "payoff_fn() changed after clauses were registered")
    names = [n for n, _ in deriv.named_clauses()]
    ctx.check(names == ["%s%d_%s" % ("mazcxbyd"[i % 8], i, s["kind"]) for i, s in enumerate(specs)], label + "/clause-names",
              f"named_clauses() order {names}")
    for n in range(N):
        w, err, peak = O.apply_clauses_exact(specs, Fr(base_vals[n]), spot[n], eps)
        g = got[n]
        if peak > OVERFLOW_GUARD[eps]:
            ctx.exclude("clause-chain-overflows-dtype")  # repeated squares leave the float range: nothing to compare
            continue
        if not math.isfinite(g) or abs(Fr(g) - w) > err + Fr(eps) * abs(w):
            ctx.fail(label + "/clauses-in-order",
                     f"path {n}: payoff() = {g!r}, clauses in registration order on payoff_fn()={base_vals[n]!r} give {float(w)!r}",
                     path=n, clauses=specs)
            return
    # registering another clause under the name of the LAST clause replaces it (a parameter sweep re-registers "cap", ...);
    # the last position is where it sits whichever way replacement is ordered
    if specs:
        new = {"kind": "affine", "a": 2.0, "b": 0.125}
        last_name = "%s%d_%s" % ("mazcxbyd"[(len(specs) - 1) % 8], len(specs) - 1, specs[-1]["kind"])
        with ctx.sut(label + "/payoff"):
            deriv.add_clause(last_name, O.make_clause(new))
            out2 = deriv.payoff()
        got2 = _values(ctx, label + "/payoff", out2, N)
        if got2 is None:
            return
        specs2 = list(specs[:-1]) + [new]
        for n in range(N):
            w, err, peak = O.apply_clauses_exact(specs2, Fr(base_vals[n]), spot[n], eps)
            if peak > OVERFLOW_GUARD[eps]:
                continue
            g = got2[n]
            if not math.isfinite(g) or abs(Fr(g) - w) > err + Fr(eps) * abs(w):
                ctx.fail(label + "/clause-replaced",
                         f"path {n}: after re-registering '{last_name}' payoff() = {g!r}, expected {float(w)!r} (old clause {specs[-1]})",
                         path=n, clauses=specs2)
                return


def _clause_classes(ctx, specs):
    ctx.cls("clauses:%d" % len(specs) if len(specs) < 3 else "clauses:>=3")
    for s in specs:
        ctx.cls("clause:" + s["kind"])


def check_options(case, ctx):
    import pfhedge.instruments as I

    dtype, eps = case["dtype"], EPS[case["dtype"]]
    spot, strike, call = case["spot"], case["strike"], case["call"]
    N = len(spot)
    ul = _underlier(case)
    buf0 = ul.spot.clone()
    maturity = max(len(spot[0]) - 1, 1) * case["dt"]
    vals, derivs = {}, {}
    for name in OPTION_FNS:
        cls = getattr(I, OPTION_CLS[name])
        for c in ((True,) if case["defaults"] else (call, not call)):
            label = "C12/" + OPTION_CLS[name]
            with ctx.sut(label):
                d = cls(ul, maturity=maturity) if case["defaults"] else cls(ul, call=c, strike=strike, maturity=maturity)
                raw = d.payoff_fn()
                full = d.payoff()
            got = _values(ctx, label, raw, N)
            if got is None:
                continue
            want = [O.EXACT[name](p, c, strike) for p in spot]
            if not _cmp_exact(ctx, label + "/value", got, want, eps, f"{OPTION_CLS[name]}(call={c}, strike={strike}).payoff_fn()"):
                continue
            ctx.check(tuple(full.shape) == (N,) and [float(v) for v in full.tolist()] == got, label + "/payoff-no-clause",
                      "payoff() without clauses differs from payoff_fn()")
            vals[(name, c)] = got
            derivs[(name, c)] = d
    _relations(ctx, "C12/cls", vals, spot, strike, eps)
    key = (case["type"], call)
    specs = case["clauses"]
    if key in derivs and specs:
        _check_clauses(ctx, "C12/cls", derivs[key], specs, vals[key], spot, eps)
    ctx.check(torch.equal(ul.spot, buf0), "C12/cls/mutates", "payoff computation modified the spot buffer")
    # the same derivative objects on new paths (a second simulation: time-reversed paths, one path fewer): "for every simulated path"
    spot2 = [list(reversed(p)) for p in (spot[1:] if N > 1 else spot)]
    ul.register_buffer("spot", torch.tensor(spot2, dtype=DTYPES[dtype]))
    for (name, c), d in derivs.items():
        label = "C12/" + OPTION_CLS[name]
        with ctx.sut(label):
            raw2 = d.payoff_fn()
        got2 = _values(ctx, label, raw2, len(spot2))
        if got2 is None:
            continue
        want2 = [O.EXACT[name](p, c, strike) for p in spot2]
        _cmp_exact(ctx, label + "/value", got2, want2, eps, f"{OPTION_CLS[name]}(call={c}).payoff_fn() on the second set of paths of the same object")
    nt = _path_classes(ctx, spot, strike)
    ctx.nontrivial(nt or len(specs) >= 2)
    _clause_classes(ctx, specs)
    ctx.cls("dtype:" + dtype, "call:" + str(call), "type:" + case["type"], "defaults:" + str(case["defaults"]))


# ------------------------------------------------------------------------------------ C: forward start
def check_forward_start(case, ctx):
    from pfhedge.instruments import EuropeanForwardStartOption

    dtype, eps = case["dtype"], EPS[case["dtype"]]
    spot, strike, dt, start = case["spot"], case["strike"], case["dt"], case["start"]
    N, T = len(spot), len(spot[0])
    ul = _underlier(case)
    maturity = max(T - 1, 1) * dt
    idxs = [i for i in O.start_indices(start, dt) if i < T]
    if not idxs:  # cannot happen: k <= T-1 by construction
        ctx.exclude("start-index-beyond-path")
        return
    label = "C12/forward_start"
    with ctx.sut(label):
        if case["default_strike"]:
            d = EuropeanForwardStartOption(ul, maturity=maturity, start=start)
        else:
            d = EuropeanForwardStartOption(ul, strike=strike, maturity=maturity, start=start)
        raw = d.payoff_fn()
        full = d.payoff()
    got = _values(ctx, label, raw, N)
    if got is None:
        return
    ok_any = False
    for i in idxs:
        ok = True
        for n in range(N):
            w, scale = O.forward_start(spot[n], strike, i)
            if not math.isfinite(got[n]) or abs(Fr(got[n]) - w) > 4 * Fr(eps) * scale:
                ok = False
                break
        ok_any = ok_any or ok
    if not ctx.check(ok_any, label + "/value",
                     f"payoff {got} is not max(S_T/S_i-K,0) for any admissible start index {idxs} "
                     f"(start/dt = {start / dt!r}, K={strike})", start=start, dt=dt, admissible=idxs):
        return
    ctx.check([float(v) for v in full.tolist()] == got, label + "/payoff-no-clause", "payoff() without clauses differs from payoff_fn()")
    specs = case["clauses"]
    if specs:
        _check_clauses(ctx, label, d, specs, got, spot, eps)
    # non-trivial: the start index is observable (neighbouring prices differ on some path), or a tie, or >= 2 clauses
    i = idxs[-1]
    observable = any((i > 0 and p[i - 1] != p[i]) or (i + 1 < T and p[i + 1] != p[i]) for p in spot)
    tie = any(Fr(p[-1]) / Fr(p[i]) == Fr(strike) for p in spot)
    ctx.nontrivial(observable or tie or len(specs) >= 2)
    _clause_classes(ctx, specs)
    ctx.cls("dtype:" + dtype, "T:%d" % T if T <= 2 else "T:>=3",
            "start:integral" if case["frac"] == 0.0 else "start:non-integral",
            "start-index:ambiguous" if len(idxs) > 1 else "start-index:unique",
            "start-index:first" if i == 0 else ("start-index:last" if i == T - 1 else "start-index:interior"))
    if tie:
        ctx.cls("tie:ratio=strike")
    if observable:
        ctx.cls("start-index:observable")


# ------------------------------------------------------------------------------------ D: variance swap
def check_variance_swap(case, ctx):
    from pfhedge.instruments import VarianceSwap

    dtype, eps = case["dtype"], EPS[case["dtype"]]
    spot, dt = case["spot"], case["dt"]
    strike = 0.04 if case["default_strike"] else case["strike"]
    N, T = len(spot), len(spot[0])
    ul = _underlier(case)
    label = "C12/variance_swap"
    with ctx.sut(label):
        d = VarianceSwap(ul, maturity=(T - 1) * dt) if case["default_strike"] else VarianceSwap(ul, strike=strike, maturity=(T - 1) * dt)
        raw = d.payoff_fn()
        full = d.payoff()
    got = _values(ctx, label, raw, N)
    if got is None:
        return
    with mp.workdps(O.MP_DPS):
        for n, p in enumerate(spot):
            val, bound = O.realized_variance_mp(p, dt, eps, dt_rel_err=eps)
            want = val - mp.mpf(strike)
            tol = bound + 2 * eps * (abs(val) + abs(strike))
            if got[n] != got[n] or abs(mp.mpf(got[n]) - want) > tol:
                ctx.fail(label + "/value", f"path {n}: got {got[n]!r}, mean(log-return^2)/dt - K = {float(want)!r}, tol {float(tol):.3e}",
                         path=n, dt=dt, strike=strike)
                return
    ctx.check([float(v) for v in full.tolist()] == got, label + "/payoff-no-clause", "payoff() without clauses differs from payoff_fn()")
    specs = case["clauses"]
    if specs:
        _check_clauses(ctx, label, d, specs, got, spot, eps)
    varied = any(len(set(p)) > 1 for p in spot)
    ctx.nontrivial((varied and strike != 0.0) or len(specs) >= 2)
    _clause_classes(ctx, specs)
    ctx.cls("dtype:" + dtype, "T:2" if T == 2 else "T:>=3", "strike:" + ("0" if strike == 0.0 else "nonzero"),
            "path:" + ("varied" if varied else "flat"))


SUBS = [
    Sub("functional", check_functional,
        rule="Hypothesis draws N<=5 paths of T in [1,8] prices K0+j*h (j in [-6,6], dyadic grid exact in the dtype; float64 also "
             "decimal centres), strike on the grid, input rank 1/2/3, explicit forward-start indices (negative too), dt float or "
             "0-dim tensor; all *_payoff functions for call and put, european_forward_start_payoff, realized_variance/volatility "
             "against exact Fraction / mpmath definitions plus the ordering relations. Non-trivial: some price ties with the "
             "strike or some path has its max/min strictly inside the path.",
        strategy=lambda tier: functional_case(), examples={"quick": 10000, "thorough": 120000}),
    Sub("options", check_options,
        rule="same paths written into BrownianStock.spot with register_buffer; the four option classes (call and put, explicit "
             "and default arguments) payoff_fn()/payoff() vs the exact contract, relations between classes, and 0-4 clauses "
             "(affine, cap, floor, knock-out on path max, square) registered under unique names on one of them: payoff() must "
             "equal the clauses applied in registration order. Non-trivial: tie with the strike, interior extreme, or >=2 clauses.",
        strategy=lambda tier: options_case(), examples={"quick": 8000, "thorough": 100000}),
    Sub("forward_start", check_forward_start,
        rule="EuropeanForwardStartOption on written paths, T in [1,8]; start = (k+frac)*dt with frac in {0, .001, .25, .49, .5, "
             ".51, .75, .999} or the k-fold float sum of dt; oracle max(S_T/S_i-K,0) for i = floor(start/dt), and i = k "
             "when the float ratio is within 8 ulps of an integer k (on either side); clauses as above. Non-trivial: the start index is observable "
             "(prices next to it differ), or the ratio ties with the strike, or >=2 clauses.",
        strategy=lambda tier: forward_start_case(), examples={"quick": 6000, "thorough": 80000}),
    Sub("variance_swap", check_variance_swap,
        rule="VarianceSwap on written paths, T in [2,8], dt from the usual grid, strikes incl. 0 and the default; oracle "
             "mean(log-return^2)/dt - K in 40-digit mpmath with the a-priori float error bound; clauses as above. Non-trivial: "
             "a non-constant path with a non-zero strike, or >=2 clauses.",
        strategy=lambda tier: variance_swap_case(), examples={"quick": 6000, "thorough": 80000}),
]

META = {
    "technique": "property-based testing: Hypothesis-generated price paths written directly into the underlier buffer, payoffs "
                 "of the functional forms and derivative classes vs exact rational (Fraction) / 40-digit mpmath evaluation of "
                 "the contracts, generated clause programs vs their exact composition",
    "level_text": "Exploration: thousands of generated paths on a tie-rich grid (T=1..8, call/put, strikes, start times, dt, "
                  "clause lists) per run, every path compared with an exact independent evaluation; boundary-convention, "
                  "extreme-direction, start-index, annualisation and clause-order mutants are all caught (mutants/results_c12.json).",
}
