"""C11 - Simulated buffers are well-formed for every generator and instrument."""
import math
from fractions import Fraction

import torch
from hypothesis import strategies as st

from ..core import Sub
from ..gens import DTYPES, EPS, fl

PROPERTY_ID = "C11"
ASSUMPTIONS = [
    "column 0: a Python scalar state is compared with the scalar rounded directly to the buffer dtype (cast_state after F8), a tensor state with "
    "state.to(dtype); tolerance 2*eps*|x| (one rounding of 'x + 0' / 'x * exp(0)'), Heston spot 4*eps*|x|*(1+|log x|) because it is exp(log(x))",
    "zero / inf in an exponential-type price is accepted only where a deliberately generous bound B of |log S_t - log S_0| computed from the parameters "
    "(|Z| <= 8.6 per normal draw, jump counts <= rate+12*sqrt(rate)+20 per step, jump sizes <= |mean|+9 std resp. 40 means; for stochastic-volatility "
    "models from the simulated variance path) allows log S to leave the dtype's exponent range; negative prices and NaN are never accepted",
    "parameter sweeps: sigma<=2, dt<=0.25, <=30 steps; CIR/Heston kappa in [0.05,10], theta in [1e-4,0.5], vol-of-vol up to 3 (Feller ratio down to ~1e-6), "
    "v0 in {0, 1e-6, ..}; jumps: <=2 expected jumps per step, <=500 per year, mean sizes up to 0.3 (Kou down 0.5); rough Bergomi alpha in [-0.49,-0.01], "
    "eta<=4. Half precisions (float16/bfloat16) use the mild sweep only (sigma<=0.6, dt<=1/12, default-like jumps): with 5..8 exponent bits the extreme "
    "sweep overflows the type's range, which is a property of the type, not of the generator",
    "instrument steps: the grid-size oracle of C13 (ceil of the exact ratio + 1; exactly k+1 within rounding distance of an integer k)",
    "rough Bergomi is generated with n_steps >= 2 (K4); a drawn single step is bumped to 2 and counted as excluded",
    "a backend operator not implemented for a half type (rough Bergomi's Cholesky) is counted as unsupported, not as a violation",
]

HALF = ("float16", "bfloat16")
FINFO = {k: torch.finfo(v) for k, v in DTYPES.items()}
ZMAX = 8.6
DT_CHOICES = [1 / 250, 1 / 250, 1 / 365, 1 / 52, 1 / 12, 0.1, 0.25, 0.01]
DT_MILD = [1 / 250, 1 / 250, 1 / 365, 1 / 52, 1 / 12, 0.01]

GENS = ["brownian", "gbm", "cir", "heston", "vasicek", "merton", "kou", "rough_bergomi", "local_vol"]
INSTS = {"BrownianStock": "gbm", "HestonStock": "heston", "CIRRate": "cir", "VasicekRate": "vasicek", "MertonJumpStock": "merton",
         "KouJumpStock": "kou", "RoughBergomiStock": "rough_bergomi", "LocalVolatilityStock": "local_vol"}
EXP_TYPE = {"gbm", "heston", "merton", "kou", "rough_bergomi"}  # exponential-type price processes of the statement
N_STATE = {"brownian": 1, "gbm": 1, "cir": 1, "heston": 2, "vasicek": 1, "merton": 1, "kou": 1, "rough_bergomi": 2, "local_vol": 1}
# init_state as a bare scalar / bare tensor instead of a tuple: documented for some generators, accepted by all one-state
# generators (they all go through cast_state, whose documentation lists the bare forms)
SCALAR_OK = {"brownian", "gbm", "merton", "kou", "local_vol", "cir", "vasicek"}
COLUMN_STATE = {"brownian", "gbm", "merton", "rough_bergomi"}  # a per-path initial state has shape (n_paths, 1); the others (n_paths,)


def sigma_flat(time, spot):
    return torch.zeros_like(spot) + 0.2


def sigma_smile(time, spot):
    return 0.3 + 0.2 * torch.tanh(2.0 * (1.0 - spot)) * torch.exp(-time)


def sigma_term(time, spot):
    return torch.zeros_like(spot) + 0.1 + 0.3 * time / (1.0 + time)


def sigma_const0d(time, spot):
    return torch.zeros_like(time) + 0.25  # a term structure / constant that ignores the spot: one value for all paths


def sigma_term0d(time, spot):
    return 0.1 + 0.3 * time / (1.0 + time)


SIGMA_FNS = {"flat": sigma_flat, "smile": sigma_smile, "term": sigma_term, "const0d": sigma_const0d, "term0d": sigma_term0d}
ENGINE_GENS = {"brownian", "gbm", "merton", "kou"}  # generators with the documented ``engine`` argument
ENGINE_INSTS = {"MertonJumpStock", "KouJumpStock"}


def _engine(name):
    from pfhedge.stochastic import randn_antithetic, randn_sobol_boxmuller

    return {"antithetic": randn_antithetic, "sobol": randn_sobol_boxmuller}[name]


# ------------------------------------------------------------------------------ strategies
def _logu(lo, hi):
    return fl(math.log10(lo), math.log10(hi), "float32").map(lambda e: 10.0 ** e)


@st.composite
def model_params(draw, model: str, mild: bool):
    """Admissible parameters; None entries mean 'leave the documented default'."""
    default = draw(st.integers(0, 3)) == 0
    if default:
        return {}
    smax = 0.6 if mild else 2.0
    if model in ("brownian", "gbm"):
        # sigma = 0 (a deterministic path) is admissible
        return {"sigma": draw(st.one_of(fl(0.05, 0.6), _logu(0.01, smax), st.just(0.0))), "mu": draw(st.sampled_from([0.0, 0.1, -0.2, 1.0 if not mild else 0.3, -1.0 if not mild else -0.3]))}
    if model in ("cir", "heston"):
        p = {"kappa": draw(st.one_of(fl(0.2, 4.0), _logu(0.05, 10.0), st.sampled_from([50.0, 200.0]))), "theta": draw(st.one_of(fl(0.01, 0.2), _logu(1e-4, 0.5))),
             "sigma": draw(st.one_of(fl(0.05, 1.0), _logu(0.01, 3.0)))}
        if mild:
            p = {"kappa": draw(fl(0.2, 4.0)), "theta": draw(fl(0.01, 0.2)), "sigma": draw(fl(0.05, 1.0))}
        if model == "heston":
            p["rho"] = draw(st.one_of(fl(-0.99, 0.99), st.sampled_from([-0.7, 0.0, 0.9])))
        return p
    if model == "vasicek":
        # incl. strong mean reversion over long horizons (kappa * horizon in the hundreds)
        return {"kappa": draw(st.one_of(_logu(0.05, 10.0), _logu(0.05, 10.0), st.sampled_from([50.0, 200.0, 1000.0]))), "theta": draw(fl(-0.1, 0.5)),
                "sigma": draw(_logu(0.001, 0.5))}
    if model == "merton":
        if mild:
            return {"sigma": draw(fl(0.05, 0.6)), "mu": draw(st.sampled_from([0.0, 0.1])), "jump_per_year": draw(fl(0.0, 100.0)),
                    "jump_mean": draw(fl(-0.05, 0.05)), "jump_std": draw(fl(0.0, 0.05))}
        return {"sigma": draw(_logu(0.01, 1.0)), "mu": draw(st.sampled_from([0.0, 0.1, -0.5, 0.5])),
                "jump_per_year": draw(st.one_of(st.just(0.0), fl(0.0, 100.0), fl(0.0, 500.0))),
                "jump_mean": draw(st.one_of(fl(-0.05, 0.05), fl(-0.3, 0.3))), "jump_std": draw(st.one_of(st.just(0.0), fl(0.0, 0.05), fl(0.0, 0.3)))}
    if model == "kou":
        if mild:
            return {"sigma": draw(fl(0.05, 0.6)), "mu": draw(st.sampled_from([0.0, 0.1])), "jump_per_year": draw(fl(0.0, 100.0)),
                    "jump_mean_up": draw(fl(0.005, 0.05)), "jump_mean_down": draw(fl(0.005, 0.05)), "jump_up_prob": draw(fl(0.0, 1.0))}
        return {"sigma": draw(_logu(0.01, 1.0)), "mu": draw(st.sampled_from([0.0, 0.1, -0.5, 0.5])),
                "jump_per_year": draw(st.one_of(st.just(0.0), fl(0.0, 100.0), fl(0.0, 500.0))),
                "jump_mean_up": draw(st.one_of(fl(0.005, 0.1), fl(0.001, 0.3))), "jump_mean_down": draw(st.one_of(fl(0.005, 0.1), fl(0.001, 0.5))),
                "jump_up_prob": draw(st.one_of(fl(0.0, 1.0), st.sampled_from([0.0, 1.0, 0.5])))}
    if model == "rough_bergomi":
        return {"alpha": draw(st.one_of(fl(-0.45, -0.05), fl(-0.49, -0.01))), "rho": draw(fl(-0.99, 0.99)),
                "eta": draw(st.one_of(fl(0.3, 2.5), fl(0.1, 4.0))), "xi": draw(st.one_of(fl(0.01, 0.2), _logu(1e-3, 0.5)))}
    if model == "local_vol":
        return {}
    raise ValueError(model)


@st.composite
def init_spec(draw, model: str, allow_scalar: bool):
    """Default / Python scalars / 0-dim tensors. values are drawn per state component."""
    kind = draw(st.sampled_from(["default", "float", "float", "tensor32", "tensor64", "int", "per_path"]))
    if kind == "default":
        return {"kind": "default"}
    vals = []
    for i in range(N_STATE[model]):
        price_like = i == 0 and model in EXP_TYPE | {"local_vol"}
        if kind == "int":
            vals.append(draw(st.sampled_from([1, 2, 3, 100])) if price_like or model in ("brownian", "vasicek") else draw(st.sampled_from([0, 1])))
        elif price_like:
            vals.append(draw(st.one_of(st.sampled_from([1.0, 100.0, 0.1, 1.3]), fl(0.1, 200.0, "float32"), fl(0.5, 2.0))))
        elif model in ("brownian", "vasicek"):
            vals.append(draw(st.one_of(st.sampled_from([0.0, 0.04, -0.02, 1.7]), fl(-0.5, 0.5), fl(-3.0, 3.0, "float32"))))
        else:  # variance-type state
            vals.append(draw(st.one_of(st.sampled_from([0.04, 0.0, 1e-6, 0.3, 0.01]), _logu(1e-5, 0.5), fl(0.001, 0.2))))
    out = {"kind": kind, "values": vals}
    if kind == "per_path":
        # one start value per path for the first state component (a pool cycled over the paths)
        price_like = model in EXP_TYPE | {"local_vol"}
        el = st.sampled_from([1.0, 100.0, 0.5, 2.0, 1.3]) if price_like else \
            (st.sampled_from([0.0, 0.04, -0.02, 1.7, 0.5]) if model in ("brownian", "vasicek") else st.sampled_from([0.04, 0.0, 0.3, 0.01, 1e-6]))
        out["pool"] = draw(st.lists(el, min_size=2, max_size=4))
    if allow_scalar and N_STATE[model] == 1 and kind != "default":
        out["scalar"] = draw(st.booleans())
    return out


def _cap_jumps(params, dt):
    """At most two expected jumps per step (<= ~60 over the longest path): the log-price stays far inside the float32 exponent range."""
    if "jump_per_year" in params:
        params["jump_per_year"] = min(params["jump_per_year"], 2.0 / dt)


def _dtype_s():
    return st.sampled_from([None, None, "float32", "float64", "float64", "float16", "bfloat16"])


@st.composite
def generator_case(draw):
    gen = draw(st.sampled_from(GENS))
    dtype = draw(_dtype_s())
    default = draw(st.sampled_from(["float32", "float32", "float64"]))
    mild = dtype in HALF
    n_steps = draw(st.one_of(st.integers(1, 30), st.integers(1, 4)))
    case = {"gen": gen, "dtype": dtype, "default": default, "n_paths": draw(st.one_of(st.integers(1, 40), st.integers(1, 3))),
            "n_steps": n_steps, "dt": draw(st.sampled_from(DT_MILD if mild else DT_CHOICES)),
            "params": draw(model_params(gen, mild)), "init": draw(init_spec(gen, True)), "seed": draw(st.integers(0, 2 ** 31 - 1))}
    _cap_jumps(case["params"], case["dt"])
    if gen == "local_vol":
        case["sigma_fn"] = draw(st.sampled_from(sorted(SIGMA_FNS)))
    if gen in ENGINE_GENS:
        case["engine"] = draw(st.sampled_from([None, None, "antithetic", "sobol"]))
    return case


@st.composite
def instrument_case(draw):
    inst = draw(st.sampled_from(sorted(INSTS)))
    model = INSTS[inst]
    dtype = draw(_dtype_s())
    mild = dtype in HALF
    case = {"inst": inst, "dtype": dtype, "default": draw(st.sampled_from(["float32", "float32", "float64"])),
            "dt": draw(st.sampled_from(DT_MILD if mild else DT_CHOICES)), "params": draw(model_params(model, mild)),
            "seed": draw(st.integers(0, 2 ** 31 - 1))}
    _cap_jumps(case["params"], case["dt"])
    if model == "local_vol":
        case["sigma_fn"] = draw(st.sampled_from(sorted(SIGMA_FNS)))
    if inst in ENGINE_INSTS:
        case["engine"] = draw(st.sampled_from([None, None, "antithetic", "sobol"]))
    hist = []
    for _ in range(draw(st.integers(1, 4))):
        hist.append({"n_paths": draw(st.one_of(st.integers(1, 40), st.integers(1, 3))),
                     # horizon = half_steps/2 * dt: integral and half-integral multiples of dt in [0, 29 dt]
                     "half_steps": draw(st.one_of(st.integers(0, 29).map(lambda k: 2 * k), st.integers(0, 58), st.integers(0, 6))),
                     "default_horizon": draw(st.integers(0, 7)) == 0,
                     "init": draw(init_spec(model, False))})
    case["history"] = hist
    return case


# ------------------------------------------------------------------------------ helpers
def _unsupported(dtype):
    def classify(exc):
        if dtype in HALF and isinstance(exc, RuntimeError) and "not implemented for" in str(exc):
            return "unsupported-half-precision-operator"
        return None
    return classify


def _build_init(spec, scalar_ok, model=None, n_paths=None, want_dtype=None):
    """-> (argument for init_state or None, list of per-component expected-value builders)."""
    if spec["kind"] == "default":
        return None
    vals = spec["values"]
    if spec["kind"] == "per_path":
        pool = spec["pool"]
        dt = want_dtype if want_dtype in (torch.float32, torch.float64) else torch.float32
        first = torch.tensor([pool[i % len(pool)] for i in range(n_paths)], dtype=dt)
        comps = [first.reshape(-1, 1) if model in COLUMN_STATE else first] + [float(v) for v in vals[1:]]
    elif spec["kind"] in ("float", "int"):
        comps = list(vals)
    elif spec["kind"] == "tensor32":
        comps = [torch.tensor(float(v), dtype=torch.float32) for v in vals]
    else:
        comps = [torch.tensor(float(v), dtype=torch.float64) for v in vals]
    if spec.get("scalar") and scalar_ok and len(comps) == 1:
        return comps[0]
    return tuple(comps)


def _expected_state(comp, dt: torch.dtype):
    """The requested component at the resolution of the buffer dtype: a Python float, or one value per path."""
    if isinstance(comp, torch.Tensor):
        if comp.numel() > 1:
            return comp.to(dt).double().reshape(-1)
        return comp.to(dt).double().item()
    return torch.tensor(comp, dtype=dt).double().item()


def _defaults(model, params):
    d = {"brownian": [0.0], "gbm": [1.0], "merton": [1.0], "kou": [1.0], "local_vol": [1.0],
         "cir": [params.get("theta", 0.04)], "vasicek": [params.get("theta", 0.04)],
         "heston": [1.0, params.get("theta", 0.04)], "rough_bergomi": [1.0, params.get("xi", 0.04)]}
    return d[model]


def _jump_bound(model, p, dt, n):
    rate = p.get("jump_per_year", 68.2 if model == "merton" else 68.0) * dt
    cnt = rate + 12.0 * math.sqrt(rate) + 20.0
    if model == "merton":
        size = abs(p.get("jump_mean", 0.0)) + 9.0 * p.get("jump_std", 0.02)
        comp = p.get("jump_per_year", 68.2) * abs(math.exp(p.get("jump_mean", 0.0) + p.get("jump_std", 0.02) ** 2 / 2) - 1)
    else:
        up, dn = p.get("jump_mean_up", 0.02), p.get("jump_mean_down", 0.05)
        size = 40.0 * max(up, dn)
        q = p.get("jump_up_prob", 0.5)
        comp = p.get("jump_per_year", 68.0) * abs((1 - q) / (1 + dn) + q / (1 - up) - 1)
    return (n - 1) * (cnt * size + comp * dt)


def _log_range_bound(model, p, dt, n, variance=None):
    """Generous bound of max_t |log S_t - log S_0| (see ASSUMPTIONS)."""
    T = (n - 1) * dt
    if model in ("gbm", "merton", "kou"):
        s = p.get("sigma", 0.2)
        b = (abs(p.get("mu", 0.0)) + s * s / 2) * T + ZMAX * s * math.sqrt(dt) * (n - 1)
        if model != "gbm":
            b += _jump_bound(model, p, dt, n)
        return b
    vmax = float(variance.double().clamp(min=0).max()) if variance is not None and variance.numel() else 0.0
    if not math.isfinite(vmax):
        return math.inf
    if model == "heston":
        k, th, s, r = p.get("kappa", 1.0), p.get("theta", 0.04), p.get("sigma", 0.2), p.get("rho", -0.7)
        per = abs(r * k * th * dt / s) + vmax * (dt * (abs(k * r / s) + 0.5) + 2 * abs(r) / s) + ZMAX * math.sqrt(vmax * dt)
        return (n - 1) * per
    if model == "rough_bergomi":
        return (n - 1) * (0.5 * vmax * dt + 2 * ZMAX * math.sqrt(vmax * dt))
    return math.inf


def _qe_region(model, p, dt, series, dname):
    """Diagnosis for a NaN / inf in a CIR / Heston variance path: at the last finite state before the first non-finite value, are the moment-matching
    quantities of the QE step (conditional variance s2, 1/psi = m^2/s2) outside what the dtype can represent?  Evaluated in float64 from the
    definitions m = theta+(v-theta)e, s2 = v sigma^2 e(1-e)/kappa + theta sigma^2 (1-e)^2/(2 kappa), e = exp(-kappa dt)."""
    if model not in ("cir", "heston"):
        return None
    x = series["variance" if model == "heston" else "spot"].double()
    nan = ~torch.isfinite(x)
    if not nan.any() or x.shape[1] < 2:
        return None
    cols = nan.any(dim=0).nonzero().flatten()
    j1 = int(cols[0])
    if j1 == 0:
        return None
    fi = FINFO[dname]
    k, th, sg = p.get("kappa", 1.0), p.get("theta", 0.04), p.get("sigma", 0.2)
    e = math.exp(-k * dt)
    reasons = set()
    for i in nan[:, j1].nonzero().flatten().tolist():
        v = x[i, j1 - 1].item()
        if not math.isfinite(v):
            continue
        m = th + (v - th) * e
        s2 = v * sg * sg * e * (1 - e) / k + th * sg * sg * (1 - e) ** 2 / (2 * k)
        if 1 - e <= fi.eps / 2:
            reasons.add("1-exp(-kappa*dt) rounds to 0")
        elif s2 < 2 * fi.smallest_normal * fi.eps:
            reasons.add("s2 underflows")
        elif m * m < 2 * fi.smallest_normal * fi.eps:
            reasons.add("m^2 underflows")
        elif 8 * m * m / s2 > fi.max:
            reasons.add("1/psi overflows")
        else:
            return None  # a NaN from a representable state: not this region
    return ("QE moments not representable in " + dname + ": " + ", ".join(sorted(reasons))) if reasons else None


def validate(ctx, lab, model, params, dt, series, want_shape, want_dtype, init_comps, defaults, volatility=None, variance=None, dtype_given=True):
    """series: name -> tensor of the simulated process(es). Returns False after the first structural failure."""
    dname = {v: k for k, v in DTYPES.items()}[want_dtype]
    eps = EPS[dname]
    ok = True
    for name, x in series.items():
        if not ctx.check(isinstance(x, torch.Tensor) and tuple(x.shape) == tuple(want_shape), lab + "/shape",
                         f"{name}: shape {tuple(x.shape) if isinstance(x, torch.Tensor) else type(x)} != (n_paths, n_steps) = {tuple(want_shape)}"):
            return False
        if x.dtype != want_dtype:
            wide_state = (model == "kou" and not dtype_given and init_comps is not None and isinstance(init_comps[0], torch.Tensor)
                          and torch.promote_types(init_comps[0].dtype, want_dtype) == x.dtype)
            ctx.fail(lab + "/dtype", f"{name}: dtype {x.dtype} != requested {want_dtype}"
                     + (" [Kou: dtype=None, the 0-dim tensor state promotes the paths]" if wide_state else ""),
                     region="kou-state-promotes" if wide_state else None)
            ok = False
    if not ok:
        return False
    n = want_shape[1]
    # column 0
    state_names = {"heston": ["spot", "variance"], "rough_bergomi": ["spot", "variance"]}.get(model, ["spot"])
    for i, name in enumerate(state_names):
        comp = init_comps[i] if init_comps is not None else defaults[i]
        want = torch.as_tensor(_expected_state(comp, want_dtype), dtype=torch.float64)
        col = series[name][:, 0].double()
        tol = 2 * eps * want.abs()
        if model == "heston" and name == "spot" and bool((want > 0).all()):
            # exp(log(x)); with dtype=None a tensor state is not cast, so the logarithm is taken in the state's own dtype
            e_state = EPS[{v: k for k, v in DTYPES.items()}[comp.dtype]] if (isinstance(comp, torch.Tensor) and not dtype_given) else 0.0
            tol = 4 * max(eps, e_state) * want.abs() * (1 + want.log().abs())
        bad = ~((col - want).abs() <= tol)
        if bad.any():
            j = int(bad.nonzero()[0])
            wj = float(want.reshape(-1)[j] if want.numel() > 1 else want)
            ctx.fail(lab + "/initial-state", f"{name}[{j},0] = {col[j].item()!r}, requested initial state {wj!r} ({dname})",
                     series=name, got=col[j].item(), want=wj)
            ok = False
    # finiteness / sign
    region = _qe_region(model, params, dt, series, dname)
    any_nan = False
    for name, x in series.items():
        xd = x.double()
        exp_type = name == "spot" and model in EXP_TYPE
        if torch.isnan(xd).any():
            j = torch.isnan(xd).nonzero()[0].tolist()
            ctx.fail(lab + "/finite", f"{name}{j} is NaN" + (f" [{region}]" if region else ""), series=name, index=j, region=region)
            ok = False
            any_nan = True
            continue
        if exp_type:
            if (xd < 0).any():
                j = (xd < 0).nonzero()[0].tolist()
                ctx.fail(lab + "/positive", f"{name}{j} = {xd[tuple(j)].item()!r} < 0 for an exponential-type price", series=name, index=j)
                ok = False
            edge = (xd == 0) | torch.isinf(xd)
            if edge.any():
                s0 = _expected_state(init_comps[0] if init_comps is not None else defaults[0], want_dtype)
                if isinstance(s0, torch.Tensor):  # one start value per path: the one of the first offending path
                    s0 = float(s0[int(edge.nonzero()[0][0])])
                s0 = abs(s0)
                B = _log_range_bound(model, params, dt, n, series.get("variance"))
                fi = FINFO[dname]
                lo_ok = s0 > 0 and math.log(s0) - B < math.log(fi.smallest_normal) - 1.0  # below the normal range: may round to 0
                hi_ok = s0 > 0 and math.log(s0) + B > math.log(fi.max) - 1.0
                if (xd == 0).any():
                    j = (xd == 0).nonzero()[0].tolist()
                    if lo_ok or s0 == 0:
                        ctx.cls("accepted:zero-by-underflow")
                    else:
                        ctx.fail(lab + "/positive", f"{name}{j} = 0 although log S cannot leave the range of {dname} (|log S - log S0| <= {B:.1f})",
                                 series=name, index=j)
                        ok = False
                if torch.isinf(xd).any():
                    j = torch.isinf(xd).nonzero()[0].tolist()
                    if hi_ok:
                        ctx.cls("accepted:inf-by-overflow")
                    else:
                        ctx.fail(lab + "/finite", f"{name}{j} = inf although log S cannot leave the range of {dname} (|log S - log S0| <= {B:.1f})",
                                 series=name, index=j)
                        ok = False
        else:
            if torch.isinf(xd).any():
                j = torch.isinf(xd).nonzero()[0].tolist()
                ctx.fail(lab + "/finite", f"{name}{j} is infinite" + (f" [{region}]" if region else ""), series=name, index=j, region=region)
                ok = False
                any_nan = True
            if (name == "variance" or (name == "spot" and model == "cir")) and (xd < 0).any():
                j = (xd < 0).nonzero()[0].tolist()
                ctx.fail(lab + "/variance-nonnegative", f"{name}{j} = {xd[tuple(j)].item()!r} < 0 for a variance process", series=name, index=j)
                ok = False
    # volatility = sqrt(variance)
    if volatility is not None and variance is not None:
        for nm, x in (("volatility", volatility), ("variance", variance)):
            if not ctx.check(tuple(x.shape) == tuple(want_shape) and x.dtype == want_dtype, lab + "/volatility-shape",
                             f"{nm}: shape {tuple(x.shape)} dtype {x.dtype}, expected {tuple(want_shape)} {want_dtype}"):
                return False
        vol, var = volatility.double(), variance.double()
        fin = torch.isfinite(vol) & torch.isfinite(var)
        ref = var.clamp(min=0).sqrt()  # float64 square root of the dtype-valued variance
        bad = fin & ~((vol - ref).abs() <= 2 * eps * ref + FINFO[dname].tiny)
        if (~fin).any() and not any_nan and not torch.isinf(series["spot"].double()).any():
            j = (~fin).nonzero()[0].tolist()
            ctx.fail(lab + "/finite", f"volatility/variance{j} not finite", index=j)
            ok = False
        if bad.any():
            j = bad.nonzero()[0].tolist()
            ctx.fail(lab + "/volatility-is-sqrt-variance",
                     f"volatility{j} = {vol[tuple(j)].item()!r}, sqrt(max(variance,0)) = {ref[tuple(j)].item()!r} (variance {var[tuple(j)].item()!r})", index=j)
            ok = False
    return ok


# ------------------------------------------------------------------------------ generators
def check_generator(case, ctx):
    old = torch.get_default_dtype()
    try:
        torch.set_default_dtype(DTYPES[case["default"]])
        _check_generator(case, ctx)
    finally:
        torch.set_default_dtype(old)


def _check_generator(case, ctx):
    import pfhedge.stochastic as S

    gen, dtype = case["gen"], case["dtype"]
    want_dtype = DTYPES[dtype] if dtype else DTYPES[case["default"]]
    n_paths, n_steps = case["n_paths"], case["n_steps"]
    fn = {"brownian": S.generate_brownian, "gbm": S.generate_geometric_brownian, "cir": S.generate_cir, "heston": S.generate_heston,
          "vasicek": S.generate_vasicek, "merton": S.generate_merton_jump, "kou": S.generate_kou_jump,
          "rough_bergomi": S.generate_rough_bergomi, "local_vol": S.generate_local_volatility_process}[gen]
    if gen == "rough_bergomi" and n_steps == 1 and not case.get("k4"):
        n_steps = 2
        ctx.exclude("K4:rough-bergomi-single-step")
    kw = dict(case["params"])
    kw["dt"] = case["dt"]
    if dtype:
        kw["dtype"] = DTYPES[dtype]
    init = _build_init(case["init"], gen in SCALAR_OK, gen, n_paths, want_dtype)
    if init is not None:
        kw["init_state"] = init
    args = (n_paths, n_steps) + ((SIGMA_FNS[case["sigma_fn"]],) if gen == "local_vol" else ())
    if case.get("engine"):
        kw["engine"] = _engine(case["engine"])
        ctx.cls("engine:" + case["engine"])
    torch.manual_seed(case["seed"])
    with ctx.sut("C11/gen", expected=_unsupported(dtype)):
        out = fn(*args, **kw)
    ctx.cls("gen:" + gen, "dtype:" + str(dtype) + "/default:" + case["default"], "init:" + case["init"]["kind"] + ("/scalar" if case["init"].get("scalar") else ""),
            "params:" + ("default" if not case["params"] else "swept"), "n_steps:" + ("1" if n_steps == 1 else "2" if n_steps == 2 else ">2"))
    comps = None if init is None else (list(init) if isinstance(init, tuple) else [init])
    vol = var = None
    if gen in ("heston", "rough_bergomi"):
        if not ctx.check(hasattr(out, "spot") and hasattr(out, "variance"), "C11/gen/shape", f"{gen} does not return (spot, variance)"):
            return
        series = {"spot": out.spot, "variance": out.variance}
        with ctx.sut("C11/gen/volatility"):
            vol, var = out.volatility, out.variance
    elif gen == "local_vol":
        if not ctx.check(hasattr(out, "spot") and hasattr(out, "volatility"), "C11/gen/shape", "local volatility does not return (spot, volatility)"):
            return
        series = {"spot": out.spot, "volatility": out.volatility}
        with ctx.sut("C11/gen/volatility"):
            vol, var = out.volatility, out.variance
    else:
        if not ctx.check(isinstance(out, torch.Tensor), "C11/gen/shape", f"{gen} returned {type(out).__name__}"):
            return
        series = {"spot": out}
    validate(ctx, "C11/gen", gen, case["params"], case["dt"], series, (n_paths, n_steps), want_dtype, comps,
             _defaults(gen, case["params"]), vol, var, dtype_given=dtype is not None)
    ctx.nontrivial(case["init"]["kind"] != "default" or dtype is not None)
    _regime_classes(ctx, gen, case["params"])


def _regime_classes(ctx, model, p):
    if model in ("cir", "heston") and p:
        feller = 2 * p["kappa"] * p["theta"] / p["sigma"] ** 2
        ctx.cls("feller:" + ("<0.01" if feller < 0.01 else "<0.2" if feller < 0.2 else "<1" if feller < 1 else ">=1"))
    if model in ("merton", "kou") and p:
        ctx.cls("jumps/yr:" + ("0" if p["jump_per_year"] == 0 else "<=100" if p["jump_per_year"] <= 100 else ">100"))


# ----------------------------------------------------------------------------- instruments
def check_instrument(case, ctx):
    old = torch.get_default_dtype()
    try:
        torch.set_default_dtype(DTYPES[case["default"]])
        _check_instrument(case, ctx)
    finally:
        torch.set_default_dtype(old)


def _steps_accepted(horizon, dt):
    from .c13 import expected_T  # the grid-size oracle of C13 (exact rationals; k+1 points within rounding distance of k)

    return expected_T(horizon, dt)[1]


def _check_instrument(case, ctx):
    import pfhedge.instruments as I

    inst, dtype = case["inst"], case["dtype"]
    model = INSTS[inst]
    want_dtype = DTYPES[dtype] if dtype else DTYPES[case["default"]]
    kw = dict(case["params"])
    kw["dt"] = case["dt"]
    if dtype:
        kw["dtype"] = DTYPES[dtype]
    cls = getattr(I, inst)
    if case.get("engine"):
        kw["engine"] = _engine(case["engine"])
        ctx.cls("engine:" + case["engine"])
    with ctx.sut("C11/inst/construct"):
        obj = cls(SIGMA_FNS[case["sigma_fn"]], **kw) if model == "local_vol" else cls(**kw)
    expected_names = {"heston": ["spot", "variance"], "rough_bergomi": ["spot", "variance"], "local_vol": ["spot", "volatility"]}.get(model, ["spot"])
    torch.manual_seed(case["seed"])
    prev = None
    ctx.cls("inst:" + inst, "dtype:" + str(dtype) + "/default:" + case["default"], "history:%d" % len(case["history"]),
            "params:" + ("default" if not case["params"] else "swept"))
    _regime_classes(ctx, model, case["params"])
    nontrivial = dtype is not None
    for i, h in enumerate(case["history"]):
        skw = {"n_paths": h["n_paths"]}
        half = h["half_steps"]
        if model == "rough_bergomi" and half == 0 and not case.get("k4"):
            half = 2
            ctx.exclude("K4:rough-bergomi-single-step")
        if h["default_horizon"]:
            horizon = 20 / 250  # documented default
        else:
            horizon = half * case["dt"] / 2
            skw["time_horizon"] = horizon
        init = _build_init(h["init"], False, model, h["n_paths"], want_dtype)
        if init is not None:
            skw["init_state"] = init
        with ctx.sut("C11/inst", expected=_unsupported(dtype)):
            obj.simulate(**skw)
        ctx.cls("init:" + h["init"]["kind"])
        bufs = dict(obj.named_buffers())
        if not ctx.check(sorted(bufs) == sorted(expected_names), "C11/inst/buffer-names",
                         f"simulate #{i + 1}: buffers {sorted(bufs)} != {sorted(expected_names)}"):
            return
        shapes = {k: tuple(v.shape) for k, v in bufs.items()}
        if not ctx.check(len(set(shapes.values())) == 1, "C11/inst/buffers-share-shape",
                         f"simulate #{i + 1} (n_paths={h['n_paths']}, horizon={horizon!r}): buffer shapes differ {shapes}"):
            return
        shp = next(iter(shapes.values()))
        acc = _steps_accepted(horizon, case["dt"])
        if not ctx.check(len(shp) == 2 and shp[0] == h["n_paths"] and shp[1] in acc, "C11/inst/shape",
                         f"simulate #{i + 1}: buffer shape {shp}, expected ({h['n_paths']}, {sorted(acc)}) for horizon {horizon!r}, dt {case['dt']!r}"):
            return
        ctx.cls("n_steps:" + ("1" if shp[1] == 1 else "2" if shp[1] == 2 else ">2"))
        vol = var = None
        if model != "cir" and model != "vasicek":
            with ctx.sut("C11/inst/volatility"):
                vol, var = obj.volatility, obj.variance
        comps = None if init is None else list(init)
        defaults = _defaults(model, case["params"])
        if not validate(ctx, "C11/inst", model, case["params"], case["dt"], bufs, shp, want_dtype, comps, defaults, vol, var,
                        dtype_given=dtype is not None):
            return
        # attribute access returns the registered buffer
        ctx.check(obj.spot is bufs["spot"], "C11/inst/buffer-names", "instrument.spot is not the registered buffer")
        # replaced entirely: every buffer is a new tensor (a stale one would also break the common shape / the predicates above)
        if prev is not None:
            nontrivial = True
            for k in expected_names:
                same_obj = bufs[k] is prev[k] or (bufs[k].data_ptr() == prev[k].data_ptr() and bufs[k].numel() > 0)
                ctx.check(not same_obj, "C11/inst/buffers-replaced",
                          f"simulate #{i + 1}: buffer '{k}' is the tensor left by the previous simulate")
        if h["init"]["kind"] != "default":
            nontrivial = True
        prev = bufs
        # between two simulations the instrument may be cast (the volatility / variance properties have already been read
        # above): everything it exposes afterwards - and the next simulation - is in the new dtype
        if want_dtype in (torch.float32, torch.float64) and h["n_paths"] % 3 == 0:
            new = torch.float64 if want_dtype == torch.float32 else torch.float32
            with ctx.sut("C11/inst/cast"):
                obj.to(new)
                bufs_c = dict(obj.named_buffers())
                exposed = dict(bufs_c)
                if model != "cir" and model != "vasicek":
                    exposed["volatility (property)"], exposed["variance (property)"] = obj.volatility, obj.variance
            for k, v in exposed.items():
                ctx.check(v.dtype == new and tuple(v.shape) == shp, "C11/inst/dtype",
                          f"after simulate #{i + 1} and to({new}): '{k}' is {v.dtype} {tuple(v.shape)}, expected {new} {shp}")
            if "volatility (property)" in exposed:
                vv, va = exposed["volatility (property)"].double(), exposed["variance (property)"].double()
                err = (vv - va.clamp(min=0).sqrt()).abs().max().item() if vv.numel() else 0.0
                ctx.check(err <= 4 * torch.finfo(torch.float32).eps * max(1.0, float(vv.abs().max()) if vv.numel() else 1.0), "C11/inst/volatility-is-sqrt-variance",
                          f"after a cast volatility differs from sqrt(variance) by {err:.3e}")
            want_dtype = new
            dtype = {torch.float32: "float32", torch.float64: "float64"}[new]
            prev = bufs_c
            ctx.cls("history:cast-between-simulations")
            nontrivial = True
    ctx.nontrivial(nontrivial)


# ------------------------------------------------------------------------------ known finding
def _is_k4(case, violation):
    if not violation["label"].endswith("/raises") or "RuntimeError" not in violation["msg"]:
        return False
    if case.get("gen") == "rough_bergomi":
        return case["n_steps"] == 1
    if case.get("inst") == "RoughBergomiStock":
        return any(h["half_steps"] == 0 and not h["default_horizon"] for h in case["history"])
    return False


KNOWN = {"K4": _is_k4}

SUBS = [
    Sub("generators", check_generator,
        rule="9 generators x n_paths in [1,40] x n_steps in [1,30] (rough Bergomi >= 2: K4) x dt in {1/250,1/365,1/52,1/12,0.1,0.25,0.01} x dtype argument in "
             "{None,f32,f64,f16,bf16} under global default f32/f64 (set and restored) x init_state default / Python floats / ints / 0-dim f32 / f64 tensors "
             "(tuple, or bare scalar where documented) x parameters default or swept (sigma to 2, CIR/Heston Feller ratio down to 1e-6 with vol-of-vol to 3 and "
             "v0 in {0,1e-6,..}, jump rates to 500/yr with mean sizes to 0.3/0.5, rough Bergomi alpha in [-0.49,-0.01], eta to 4). Predicates: shape, dtype, "
             "column 0, finite, exponential-type price > 0, variance >= 0, volatility = sqrt(clamp(variance,0)). Non-trivial: non-default init state or dtype argument given.",
        strategy=lambda tier: generator_case(), examples={"quick": 12000, "thorough": 150000},
        time_cap={"quick": 240.0, "thorough": 900.0}),
    Sub("instruments", check_instrument,
        rule="8 primary instruments x dtype in {None,f32,f64,f16,bf16} under default f32/f64 x parameter sweeps as for the generators x histories of 1-4 "
             "simulate() calls with changing n_paths in [1,40], horizon in {k*dt/2: k<=58} or the default, init_state default / floats / ints / 0-dim tensors. "
             "After every call: buffer names as documented, one common shape (n_paths, ceil(T/dt+1)), the per-series predicates of the generators, volatility/variance "
             "properties, and no buffer is the previous tensor or carries the previous content. Non-trivial: non-default init state, dtype given, or >= 2 calls.",
        strategy=lambda tier: instrument_case(), examples={"quick": 8000, "thorough": 80000},
        time_cap={"quick": 240.0, "thorough": 900.0}),
]

META = {
    "technique": "property-based testing: generated (generator | instrument, dtype, default dtype, parameters, initial state, simulate history) cases checked "
                 "against validity predicates computed independently in float64 / exact rationals",
    "level_text": "Exploration: thousands of generated calls of all 9 path generators and simulate() histories of all 8 primary instruments across four dtypes and "
                  "both global default dtypes, with parameter sweeps into low-Feller / high vol-of-vol and large-jump regimes; every returned series is checked for "
                  "shape, dtype, initial column, finiteness, sign and the volatility/variance relation; mutants of the initial column, the cast, the step count, the "
                  "registered buffers and the sign-preserving branches are caught (mutants/results_c11.json).",
}
