"""mpmath oracles for C19: monotone function families with closed-form inverses, and
Black-Scholes prices as functions of the volatility (used only to decide *identifiability*
of an implied volatility, never as the asserted relation).

A family element is a dict of floats that are exactly representable in the dtype the torch
function is evaluated in, so the mpmath function below is the exact real function whose
floating-point evaluation the bisection sees.
"""
import math

import mpmath as mp
import torch

DPS = 40
FAMILIES = ["affine", "exp", "logistic", "cubic"]


# ----------------------------------------------------------------------------- torch side
def torch_fn(family: str, P: dict):
    """P: name -> tensor (0-dim or of the target's shape). Returns fn(x) built from torch ops."""
    if family == "affine":
        return lambda x: P["a"] * x + P["b"]
    if family == "exp":
        return lambda x: P["a"] * torch.exp(P["k"] * x) + P["b"]
    if family == "logistic":
        return lambda x: P["a"] * torch.sigmoid(P["k"] * (x - P["c"])) + P["b"]
    if family == "cubic":
        def fn(x):
            t = x - P["c"]
            return P["a"] * t * t * t + P["b"] * t + P["d"]
        return fn
    raise ValueError(family)


# ------------------------------------------------------------------------------- mp side
def f_mp(family: str, p: dict, x):
    x = mp.mpf(x)
    a, b = mp.mpf(p["a"]), mp.mpf(p["b"])
    if family == "affine":
        return a * x + b
    if family == "exp":
        return a * mp.exp(mp.mpf(p["k"]) * x) + b
    if family == "logistic":
        return a / (1 + mp.exp(-mp.mpf(p["k"]) * (x - mp.mpf(p["c"])))) + b
    if family == "cubic":
        t = x - mp.mpf(p["c"])
        return a * t ** 3 + b * t + mp.mpf(p["d"])
    raise ValueError(family)


def _cbrt(z):
    return mp.cbrt(z) if z >= 0 else -mp.cbrt(-z)


def inv_mp(family: str, p: dict, y):
    """Closed-form inverse: the unique real x with f(x) = y (y inside the range of f)."""
    y = mp.mpf(y)
    a, b = mp.mpf(p["a"]), mp.mpf(p["b"])
    if family == "affine":
        return (y - b) / a
    if family == "exp":
        return mp.log((y - b) / a) / mp.mpf(p["k"])
    if family == "logistic":
        s = (y - b) / a
        return mp.mpf(p["c"]) + mp.log(s / (1 - s)) / mp.mpf(p["k"])
    if family == "cubic":
        # a t^3 + b t + (d - y) = 0 with b/a > 0: Cardano, one real root
        pp = b / a
        q = (mp.mpf(p["d"]) - y) / a
        disc = mp.sqrt(q * q / 4 + pp ** 3 / 27)
        t = _cbrt(-q / 2 + disc) + _cbrt(-q / 2 - disc)
        for _ in range(2):  # polish (Cardano cancels when |q| is small)
            t = t - (t ** 3 + pp * t + q) / (3 * t * t + pp)
        return mp.mpf(p["c"]) + t
    raise ValueError(family)


def conditioning(family: str, p: dict, lo: float, hi: float):
    """(M, dmin): M bounds the magnitude of the terms entering the floating-point evaluation of f on
    [lo, hi] (forward error <= c*eps*M), dmin is a lower bound of |f'| on [lo, hi]."""
    a, b = abs(p["a"]), abs(p["b"])
    X = max(abs(lo), abs(hi))
    if family == "affine":
        return a * X + b, a
    if family == "exp":
        k = p["k"]
        e_lo, e_hi = math.exp(k * lo), math.exp(k * hi)
        return a * max(e_lo, e_hi) * (abs(k) * X + 2.0) + b, a * abs(k) * min(e_lo, e_hi)
    if family == "logistic":
        k, c = p["k"], p["c"]
        z = max(abs(k * (lo - c)), abs(k * (hi - c)))
        s = 1.0 / (1.0 + math.exp(z))
        return a * (z + 3.0) + b, a * abs(k) * s * (1.0 - s)
    if family == "cubic":
        T = max(abs(lo - p["c"]), abs(hi - p["c"]))
        return 8.0 * (a * T ** 3 + b * T) + abs(p["d"]), b
    raise ValueError(family)


# -------------------------------------------------------------- Black-Scholes in sigma
def _N(x):
    return mp.ncdf(x)


def _n(x):
    return mp.npdf(x)


def bs_price_mp(kind: str, s, t, v, K, m=None):
    """Zero-rate Black-Scholes prices; s = log(S/K), m = log(running max/K), t > 0, v > 0.
    kinds: eu_call, eu_put, eb_call, eb_put, ab (American binary call), lb (lookback call)."""
    s, t, v, K = mp.mpf(s), mp.mpf(t), mp.mpf(v), mp.mpf(K)
    w = v * mp.sqrt(t)
    d1 = s / w + w / 2
    d2 = s / w - w / 2
    S = K * mp.exp(s)
    if kind == "eu_call":
        return S * _N(d1) - K * _N(d2)
    if kind == "eu_put":
        return K * _N(-d2) - S * _N(-d1)
    if kind == "eb_call":
        return _N(d2)
    if kind == "eb_put":
        return _N(-d2)
    if kind == "ab":
        # P(max_{u<=t} S_u >= K) for d log S = -v^2/2 du + v dW (reflection principle + Girsanov)
        if mp.mpf(m) >= 0:
            return mp.mpf(1)
        return _N(d2) + mp.exp(s) * _N(d1)
    if kind == "lb":
        m = mp.mpf(m)
        M = K * mp.exp(m)
        if M < K:
            return S * (_N(d1) + w * (d1 * _N(d1) + _n(d1))) - K * _N(d2)
        e1 = (s - m) / w + w / 2
        e2 = (s - m) / w - w / 2
        return S * (_N(e1) + w * (e1 * _N(e1) + _n(e1))) - K + M * (1 - _N(e2))
    raise ValueError(kind)
