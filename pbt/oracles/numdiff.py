"""Ridders-extrapolated central differences (float64, vectorised) with an error estimate.

``ridders(f, x, h0, order)`` differentiates a black-box elementwise function ``f`` (numpy array ->
numpy array of the same shape) at the points ``x``.  Nothing about ``f`` is used but its values, so the
result is independent of autograd and of any closed form for the derivative.

Method (Ridders 1982; Numerical Recipes ``dfridr``): the central difference

    order 1:  D(h) = (f(x+h) - f(x-h)) / (2h)
    order 2:  D(h) = (f(x+h) - 2 f(x) + f(x-h)) / h^2

has an error expansion in even powers of ``h``; a Neville tableau over the step sequence
``h0, h0/c, h0/c^2, ...`` (c = 1.5, 10 columns) removes them one after the other.  Each new tableau entry comes with
the error estimate ``max(|a[j][i]-a[j-1][i]|, |a[j][i]-a[j-1][i-1]|)``.  Unlike ``dfridr`` the tableau is
always completed (no early exit: two coarse differences that agree by accident would end it with a far too
small estimate - this happened on a lookback vega while the check was developed); the answer is the best
entry of the column with the smallest estimate, and the reported error is the maximum of that estimate and
of the distances to the best answers of the two neighbouring columns, plus an explicit round-off term
``eps * max|f| / h`` (``4 eps max|f| / h^2``) at the step that produced the answer, so the reported error
never falls below what float64 noise in ``f`` can produce.

The estimate is heuristic (as every a-posteriori estimate of a black box); users multiply it by a
safety factor and add an absolute floor.  ``selfcheck`` compares the routine with exactly known
derivatives and is run by the C08 check.
"""
from typing import Callable, Tuple

import numpy as np

CON = 1.5
CON2 = CON * CON
NTAB = 10
EPS = 2.0 ** -52


def ridders(f: Callable[[np.ndarray], np.ndarray], x, h0, order: int = 1, ntab: int = NTAB, fscale=0.0
            ) -> Tuple[np.ndarray, np.ndarray]:
    """-> (derivative, error estimate), elementwise.

    f     : elementwise function; it is called once with an array of shape (2*ntab+1,) + x.shape
    x     : points (array)
    h0    : initial steps (array like x, > 0); f must be smooth on [x-h0, x+h0]
    order : 1 or 2
    fscale: magnitude of the terms f is computed from (array like x or scalar).  The round-off of f is
            eps * max(|f|, fscale): a value that is small by cancellation (an at-the-money call price is
            S N(d1) - K N(d2)) still carries the absolute rounding error of its terms.
    """
    if order not in (1, 2):
        raise ValueError("order must be 1 or 2")
    x = np.asarray(x, dtype=np.float64)
    fscale = np.broadcast_to(np.asarray(fscale, dtype=np.float64), x.shape)
    h = np.broadcast_to(np.asarray(h0, dtype=np.float64), x.shape).copy()
    if not (h > 0).all():
        raise ValueError("h0 must be positive")
    shape = x.shape
    # all abscissae in one call: f is elementwise, so it is evaluated on an array of shape (2*ntab+1,) + x.shape
    # whose first axis runs over x+h_i, x-h_i (i = 0..ntab-1) and x itself (f must broadcast over leading axes)
    hs = np.stack([h / CON ** i for i in range(ntab)])
    X = np.concatenate([x[None, ...] + hs, x[None, ...] - hs, x[None, ...]])
    FX = np.asarray(f(X), dtype=np.float64)
    if FX.shape != X.shape:
        raise ValueError(f"f returned shape {FX.shape} for input shape {X.shape}")
    f0 = FX[2 * ntab]

    def diff(i):
        hh = hs[i]
        xp, xm = X[i], X[ntab + i]
        fp, fm = FX[i], FX[ntab + i]
        mag = np.maximum(np.maximum(np.abs(fp), np.abs(fm)), fscale)
        if order == 1:
            return (fp - fm) / (xp - xm), EPS * mag / hh  # the exactly representable step
        mag = np.maximum(mag, np.abs(f0))
        return ((fp - f0) - (f0 - fm)) / (hh * hh), 4.0 * EPS * mag / (hh * hh)

    a = np.empty((ntab, ntab) + shape)
    col_ans = np.empty((ntab,) + shape)   # best entry of each column ...
    col_err = np.full((ntab,) + shape, np.inf)   # ... and its tableau error estimate
    col_noise = np.empty((ntab,) + shape)
    a[0, 0], col_noise[0] = diff(0)
    col_ans[0] = a[0, 0]
    for i in range(1, ntab):
        a[0, i], col_noise[i] = diff(i)
        col_ans[i] = a[0, i]
        fac = CON2
        for j in range(1, i + 1):
            a[j, i] = (a[j - 1, i] * fac - a[j - 1, i - 1]) / (fac - 1.0)
            fac *= CON2
            errt = np.maximum(np.abs(a[j, i] - a[j - 1, i]), np.abs(a[j, i] - a[j - 1, i - 1]))
            better = errt <= col_err[i]
            col_err[i] = np.where(better, errt, col_err[i])
            col_ans[i] = np.where(better, a[j, i], col_ans[i])
    # No early termination (two neighbouring differences that agree by accident would otherwise stop the
    # tableau with a tiny estimate): take the column with the smallest estimate + round-off level and require its
    # answer to be reproduced by the best answers of both neighbouring columns.
    with np.errstate(invalid="ignore"):
        score = col_err + col_noise
        best = np.argmin(np.where(np.isfinite(score), score, np.inf)[1:], axis=0) + 1
    take = lambda arr, idx: np.take_along_axis(arr, idx[None, ...], axis=0)[0]
    ans = take(col_ans, best)
    err = take(col_err, best)
    lo = np.maximum(best - 1, 1)
    hi = np.minimum(best + 1, ntab - 1)
    err = np.maximum(err, np.abs(ans - take(col_ans, lo)))
    err = np.maximum(err, np.abs(ans - take(col_ans, hi)))
    err = err + take(col_noise, best)
    bad = ~np.isfinite(ans) | ~np.isfinite(err)
    err = np.where(bad, np.inf, err)
    return ans, err


def selfcheck() -> float:
    """Compare with exactly known derivatives; returns the worst |error| / (100*est + 1e-12*scale).
    A value > 1 means the routine (or its error estimate) is not trustworthy."""
    import math

    worst = 0.0
    x = np.array([-1.3, -0.2, 0.05, 0.7, 2.1])
    cases = [
        (np.sin, np.cos, lambda z: -np.sin(z), 0.3),
        (np.exp, np.exp, np.exp, 0.3),
        (lambda z: np.tanh(3 * z), lambda z: 3 / np.cosh(3 * z) ** 2,
         lambda z: -18 * np.tanh(3 * z) / np.cosh(3 * z) ** 2, 0.1),
        (lambda z: np.exp(-50 * z * z), lambda z: -100 * z * np.exp(-50 * z * z),
         lambda z: (10000 * z * z - 100) * np.exp(-50 * z * z), 0.03),
        (lambda z: np.vectorize(math.erf)(z / 0.01), lambda z: 2 / math.sqrt(math.pi) / 0.01 * np.exp(-(z / 0.01) ** 2),
         lambda z: -4 * z / math.sqrt(math.pi) / 0.01 ** 3 * np.exp(-(z / 0.01) ** 2), 0.004),
    ]
    for f, d1, d2, h0 in cases:
        for order, ex in ((1, d1), (2, d2)):
            got, est = ridders(f, x, np.full_like(x, h0), order)
            scale = np.maximum(np.abs(ex(x)), 1.0)
            r = np.abs(got - ex(x)) / (100 * est + 1e-12 * scale)
            worst = max(worst, float(r.max()))
    return worst
