"""C15 - fit() performs exactly the documented training protocol."""
import copy
import os

import torch
from hypothesis import strategies as st

from ..core import Sub
from ..gens import DTYPES, PRICERS, build_primary, primary_spec, seed_s

PROPERTY_ID = "C15"
ASSUMPTIONS = [
    "reference = explicit train()/zero_grad()/simulate/loss/backward()/step() (+ eval()/no_grad validation) loop started from the "
    "parameters and RNG state captured when the optimiser is constructed (after any lazy materialisation) or, for optimiser "
    "instances and the default optimiser, just before fit(); parameters and history must be bitwise equal",
    "the loss inside the reference loop is criterion(compute_portfolio, payoff) (C01/C03 tie that to the wealth identity)",
    "single-threaded torch: floating-point results do not depend on thread partitioning",
]


class Probe(torch.nn.Module):
    """Wraps the user model; records mode, grad mode, batch size and the first spot column at every forward."""

    def __init__(self, inner, log, derivative):
        super().__init__()
        self.inner = inner
        self._log = log
        self._deriv = [derivative]  # list: not a submodule / not deep-copied state of interest

    def forward(self, input):
        ul = self._deriv[0].ul()
        self._log.append({"training": self.training, "grad": torch.is_grad_enabled(), "batch": int(input.shape[0]),
                          "spot0": ul.spot[:, 0].detach().clone(), "inner_training": self.inner.training})
        return self.inner(input)


def make_counting(base):
    class Counting(base):
        def __init__(self, params, **kw):
            params = list(params)
            super().__init__(params, **kw)
            self.events = []
            self.snap_params = [p.detach().clone() for p in params]
            self.snap_rng = torch.get_rng_state()
            self.tracked = params

        def _digest(self):
            return [p.detach().clone() for p in self.tracked]

        def zero_grad(self, *a, **kw):
            self.events.append(("zero_grad", self._digest()))
            return super().zero_grad(*a, **kw)

        def step(self, *a, **kw):
            before = self._digest()
            out = super().step(*a, **kw)
            self.events.append(("step", before, self._digest(), [None if p.grad is None else p.grad.detach().clone() for p in self.tracked]))
            return out

    Counting.__name__ = "Counting" + base.__name__
    return Counting


OPTS = {"sgd": (torch.optim.SGD, {"lr": 0.1}), "adam": (torch.optim.Adam, {}), "adadelta": (torch.optim.Adadelta, {}),
        "rmsprop": (torch.optim.RMSprop, {})}


@st.composite
def fit_case(draw):
    ul = draw(primary_spec(types=["BrownianStock", "HestonStock", "MertonJumpStock", "CIRRate"], dtype=None, cost=True,
                           dts=[1 / 250, 1 / 52], default_params=True))
    model = draw(st.sampled_from(["mlp_lazy", "mlp", "linear_dropout", "lazylinear_dropout", "recurrent_dropout", "mlp_sigmoid_out"]))
    opt_kind = draw(st.sampled_from(["default", "class", "class", "instance"]))
    return {
        "ul": ul, "model": model, "steps": draw(st.integers(2, 5)),
        "epochs": draw(st.integers(0, 4)), "n_paths": draw(st.integers(1, 24)), "n_times": draw(st.integers(1, 3)),
        "validation": draw(st.booleans()), "opt_kind": opt_kind,
        "opt": draw(st.sampled_from(["sgd", "adam", "adadelta", "rmsprop"])),
        "crit": draw(st.sampled_from(["entropic_rm", "es", "entropic_loss", "mse", "oce", "oce"])),  # OCE owns a trainable parameter
        "hedge": draw(st.sampled_from(["default", "ul+listed"])),
        "init": draw(st.sampled_from([None, None, 1.1, 0.9])),
        "pre_mode": draw(st.sampled_from(["train", "eval", "model_eval_only", "model_train_only"])),
        "model_seed": draw(seed_s), "fit_seed": draw(seed_s),
        "second_epochs": draw(st.sampled_from([0, 0, 1, 2])),
        # the progress bar is display only: switching it on, or configuring it, changes nothing of the protocol
        "verbose": draw(st.booleans()),
        "tqdm": draw(st.sampled_from([None, None, {"desc": "fit"}, {"initial": 1}, {"initial": 3, "leave": False}, {"ncols": 60, "position": 0}])),
    }


def build(case):
    import pfhedge.instruments as I
    from pfhedge.nn import EntropicLoss, EntropicRiskMeasure, ExpectedShortfall, Hedger, MultiLayerPerceptron

    ul = build_primary(case["ul"])
    deriv = I.EuropeanOption(ul, strike=1.0 if case["ul"]["type"] != "CIRRate" else 0.04, maturity=case["steps"] * ul.dt)
    hedge = None
    H = 1
    if case["hedge"] == "ul+listed":
        o = I.EuropeanOption(ul, strike=1.05, maturity=deriv.maturity)
        o.list(PRICERS["tanh"], cost=1e-3)
        hedge = [ul, o]
        H = 2
    inputs = ["moneyness", "time_to_maturity", "underlier_spot"]
    torch.manual_seed(case["model_seed"])
    m = case["model"]
    if m == "mlp_lazy":
        inner = MultiLayerPerceptron(out_features=H, n_layers=2, n_units=4)
    elif m == "mlp":
        inner = MultiLayerPerceptron(3, H, n_layers=2, n_units=4)
    elif m == "mlp_sigmoid_out":
        inner = MultiLayerPerceptron(3, H, n_layers=1, n_units=4, out_activation=torch.nn.Sigmoid())
    elif m == "linear_dropout":
        inner = torch.nn.Sequential(torch.nn.Linear(3, 5), torch.nn.Dropout(0.5), torch.nn.Linear(5, H))
    elif m == "lazylinear_dropout":
        inner = torch.nn.Sequential(torch.nn.LazyLinear(5), torch.nn.Dropout(0.5), torch.nn.Linear(5, H))
    else:
        inputs = inputs + ["prev_hedge"]
        inner = torch.nn.Sequential(torch.nn.Linear(3 + H, 5), torch.nn.Tanh(), torch.nn.Dropout(0.25), torch.nn.Linear(5, H))
    from pfhedge.nn.modules.loss import OCE

    def _u(x):
        return -(-x).exp()

    crit = {"entropic_rm": EntropicRiskMeasure, "es": lambda: ExpectedShortfall(0.3), "entropic_loss": EntropicLoss,
            "mse": torch.nn.MSELoss, "oce": lambda: OCE(_u)}[case["crit"]]()
    log = []
    hedger = Hedger(Probe(inner, log, deriv), inputs, criterion=crit)
    return ul, deriv, hedge, hedger, log, H


def init_state_of(case):
    if case["init"] is None:
        return None
    if case["ul"]["type"] == "HestonStock":
        return (case["init"], 0.05)
    if case["ul"]["type"] == "CIRRate":
        return (case["init"] * 0.04,)
    return (case["init"],)


def params_equal(a, b):
    return len(a) == len(b) and all(x.shape == y.shape and torch.equal(x, y) for x, y in zip(a, b))


def check_fit(case, ctx):
    from pfhedge._utils.lazy import has_lazy

    ul, deriv, hedge, hedger, log, H = build(case)
    k, n_paths, n_times, validation = case["epochs"], case["n_paths"], case["n_times"], case["validation"]
    init_state = init_state_of(case)
    lazy = has_lazy(hedger)
    # an independent copy for the reference loop (same initial parameters / lazy state)
    ul_b, deriv_b, hedge_b, hedger_b, log_b, _ = build(case)
    def set_mode(h):
        # the hedger and the model inside it may have been put into different modes by the caller
        m = case["pre_mode"]
        if m in ("train", "eval"):
            getattr(h, m)()
        elif m == "model_eval_only":
            h.train()
            h.model.eval()
        else:
            h.eval()
            h.model.train()

    set_mode(hedger)
    set_mode(hedger_b)
    own_all = case["crit"] == "oce" and case["opt_kind"] == "instance"  # SGD(hedger.parameters()) as in the fit docstring

    def trained(h):
        return list(h.parameters()) if own_all else list(h.model.parameters())

    base, kw = OPTS[case["opt"]]
    counting = None
    opt_arg = None
    if case["opt_kind"] == "class":
        cls = make_counting(base)
        if kw:  # a class is instantiated as cls(params): fold the hyper-parameters into the class
            orig = cls
            class cls(orig):  # noqa: N801
                def __init__(self, params):
                    super().__init__(params, **kw)
        opt_arg = cls
    elif case["opt_kind"] == "instance":
        if lazy:  # an instance needs materialised parameters: the documented placeholder forward
            torch.manual_seed(case["model_seed"] + 1)
            deriv.simulate(n_paths=1)
            hedger.compute_pl(deriv, hedge=hedge)
            torch.manual_seed(case["model_seed"] + 1)
            deriv_b.simulate(n_paths=1)
            hedger_b.compute_pl(deriv_b, hedge=hedge_b)
            lazy = False
        counting = make_counting(base)(trained(hedger), **kw)
        opt_arg = counting
    tq = dict(case.get("tqdm") or {})
    if case.get("verbose"):
        tq["file"] = open(os.devnull, "w")  # keep the bar off the terminal
    fit_kw = dict(hedge=hedge, n_epochs=k, n_paths=n_paths, n_times=n_times, init_state=init_state, verbose=bool(case.get("verbose")),
                  validation=validation)
    if tq:
        fit_kw["tqdm_kwargs"] = tq
    if opt_arg is not None:
        fit_kw["optimizer"] = opt_arg
    if case["opt_kind"] == "default" and lazy:
        # default optimiser + lazy model: parameters materialise inside fit; use the documented placeholder forward first
        torch.manual_seed(case["model_seed"] + 1)
        deriv.simulate(n_paths=1)
        hedger.compute_pl(deriv, hedge=hedge)
        torch.manual_seed(case["model_seed"] + 1)
        deriv_b.simulate(n_paths=1)
        hedger_b.compute_pl(deriv_b, hedge=hedge_b)
        lazy = False
    before = None if lazy else [p.detach().clone() for p in trained(hedger)]
    log.clear()
    torch.manual_seed(case["fit_seed"])
    rng_before = torch.get_rng_state()
    captured = {}
    if case["opt_kind"] == "class":
        real_cls = opt_arg

        class Capturing(real_cls):  # remember the instance fit() constructs
            def __init__(self, params):
                super().__init__(params)
                captured["opt"] = self
                captured["log_at_construction"] = len(log)
        fit_kw["optimizer"] = Capturing
    with ctx.sut("C15/fit"):
        history = hedger.fit(deriv, **fit_kw)
    if case["opt_kind"] == "class":
        counting = captured.get("opt")
        if not ctx.check(counting is not None, "C15/optimizer-not-constructed", "fit() never instantiated the optimiser class"):
            return
    # ---- returned history
    if validation:
        if not ctx.check(isinstance(history, list) and len(history) == k and all(isinstance(h, float) for h in history),
                         "C15/history", f"history {history!r} is not a list of {k} floats"):
            return
    else:
        ctx.check(history is None, "C15/history", f"validation off but history is {history!r}")
    after = [p.detach().clone() for p in trained(hedger)]
    # ---- optimiser protocol
    if counting is not None:
        steps = [e for e in counting.events if e[0] == "step"]
        zeros = [e for e in counting.events if e[0] == "zero_grad"]
        ctx.check(len(steps) == k, "C15/step-count", f"{len(steps)} optimiser steps for {k} epochs")
        ctx.check(len(zeros) == k, "C15/zero-grad-count", f"{len(zeros)} zero_grad calls for {k} epochs")
        order = [e[0] for e in counting.events]
        ctx.check(order == ["zero_grad", "step"] * k, "C15/protocol-order", f"optimiser call order {order}")
        # parameters change only inside step
        cur = counting.snap_params
        ok = True
        for e in counting.events:
            if e[0] == "zero_grad":
                ok = ok and params_equal(e[1], cur)
            else:
                ok = ok and params_equal(e[1], cur)
                cur = e[2]
        ok = ok and params_equal(after, cur)
        ctx.check(ok, "C15/params-change-outside-step", "model parameters changed outside optimizer.step()")
    if k == 0 and before is not None:
        ctx.check(params_equal(before, after), "C15/zero-epochs", "fit(n_epochs=0) changed the parameters")
    # ---- modes, batch size and initial state seen by the model
    start = captured.get("log_at_construction", 0)
    calls = log[start:]
    per_eval = 1 if "prev_hedge" not in [str(f) for f in hedger.inputs.features] else None
    simulated = "spot" in dict(ul.named_buffers())
    if k > 0 and not ctx.check(simulated, "C15/step-count", f"fit(n_epochs={k}) never simulated a batch"):
        return
    Tn = ul.spot.shape[1] if (k > 0 or lazy) and simulated else None
    if per_eval is None and Tn is not None:
        per_eval = Tn - 1
    if k > 0:
        want_calls = k * per_eval * (1 + (n_times if validation else 0))
        if ctx.check(len(calls) == want_calls, "C15/forward-count",
                     f"{len(calls)} model forwards, expected {want_calls} (k={k}, n_times={n_times}, validation={validation})"):
            i = 0
            dtype = ul.spot.dtype
            want0 = None if init_state is None else torch.tensor(init_state[0], dtype=dtype)
            default0 = torch.tensor(ul.default_init_state[0], dtype=dtype)
            for ep in range(k):
                for phase, reps in (("train", 1), ("valid", n_times if validation else 0)):
                    for _ in range(reps * per_eval):
                        c = calls[i]
                        i += 1
                        if phase == "train":
                            okm = c["training"] and c["inner_training"] and c["grad"]
                            if not ctx.check(okm, "C15/train-mode", f"epoch {ep}: training forward with training={c['training']} grad={c['grad']}"):
                                return
                        else:
                            okm = (not c["training"]) and (not c["inner_training"]) and (not c["grad"])
                            if not ctx.check(okm, "C15/validation-mode", f"epoch {ep}: validation forward with training={c['training']} grad={c['grad']}"):
                                return
                        if not ctx.check(c["batch"] == n_paths, "C15/batch-size", f"forward on a batch of {c['batch']} paths, requested {n_paths}"):
                            return
                        s0 = want0 if want0 is not None else default0
                        if not ctx.check(bool((c["spot0"] == s0).all()), "C15/init-state",
                                         f"paths start at {c['spot0'][:3].tolist()} but init_state is {init_state}"):
                            return
    # ---- reference loop
    if counting is not None and case["opt_kind"] == "class":
        snap_params, snap_rng = counting.snap_params, counting.snap_rng
    elif counting is not None:  # instance built by the caller: fit starts from the state just before the call
        snap_params, snap_rng = counting.snap_params, rng_before
    else:
        snap_params, snap_rng = before, rng_before
    from pfhedge._utils.lazy import has_lazy as _hl
    if _hl(hedger_b):
        deriv_b.simulate(n_paths=1)
        hedger_b.compute_pl(deriv_b, hedge=hedge_b)
    with torch.no_grad():
        for p, s in zip(trained(hedger_b), snap_params):
            p.copy_(s)
    if case["opt_kind"] == "default":
        opt_b = torch.optim.Adam(hedger_b.model.parameters())
    else:
        opt_b = base(trained(hedger_b), **kw)
    torch.set_rng_state(snap_rng)
    hist_b = []

    def one_loss():
        deriv_b.simulate(n_paths=n_paths, init_state=init_state)
        return hedger_b.criterion(hedger_b.compute_portfolio(deriv_b, hedge=hedge_b), deriv_b.payoff())

    def reference_loop(epochs, opt, hist):
        for _ in range(epochs):
            hedger_b.train()
            opt.zero_grad()
            loss = one_loss()
            loss.backward()
            opt.step()
            if validation:
                hedger_b.eval()
                with torch.no_grad():
                    vals = [one_loss() for _ in range(n_times)]
                    v = vals[0] if n_times == 1 else torch.stack(vals).mean(dim=0)
                hist.append(v.item())

    reference_loop(k, opt_b, hist_b)
    ref = [p.detach().clone() for p in trained(hedger_b)]
    if not params_equal(after, ref):
        d = max(float((x - y).abs().max()) for x, y in zip(after, ref))
        ctx.fail("C15/differs-from-reference-loop", f"parameters after fit differ from the explicit loop (max |diff| {d:.3e})",
                 k=k, opt=case["opt"], opt_kind=case["opt_kind"])
    if validation and isinstance(history, list):
        ctx.check(history == hist_b or all(a == b or (a != a and b != b) for a, b in zip(history, hist_b)),
                  "C15/history-differs-from-reference", f"history {history} vs reference {hist_b}")
    # ---- a hedger is fitted more than once (warm start, curriculum): every call follows the same protocol with the
    # optimiser it is given - a class is instantiated anew, an instance carries on
    k2 = case.get("second_epochs", 0)
    if k2 and params_equal(after, ref):
        torch.manual_seed(case["fit_seed"] + 1)
        with ctx.sut("C15/fit"):
            history2 = hedger.fit(deriv, **dict(fit_kw, n_epochs=k2))
        after2 = [p.detach().clone() for p in trained(hedger)]
        torch.manual_seed(case["fit_seed"] + 1)
        if case["opt_kind"] == "default":
            opt_b = torch.optim.Adam(hedger_b.model.parameters())
        elif case["opt_kind"] == "class":
            opt_b = base(hedger_b.model.parameters(), **kw)
        hist_b2 = []
        reference_loop(k2, opt_b, hist_b2)
        ref2 = [p.detach().clone() for p in trained(hedger_b)]
        if not params_equal(after2, ref2):
            d = max(float((x - y).abs().max()) for x, y in zip(after2, ref2))
            ctx.fail("C15/second-fit-differs-from-reference-loop",
                     f"a second fit() on the same hedger ({case['opt_kind']} {case['opt']}) differs from the explicit loop (max |diff| {d:.3e})")
        if validation and isinstance(history2, list):
            ctx.check(history2 == hist_b2 or all(a == b or (a != a and b != b) for a, b in zip(history2, hist_b2)),
                      "C15/second-fit-differs-from-reference-loop", f"second history {history2} vs reference {hist_b2}")
        ctx.cls("second-fit:%d" % k2)
    dropout = "dropout" in case["model"]
    ctx.nontrivial(k >= 2 and (dropout or validation))
    ctx.cls("k:%d" % k, "opt:" + case["opt_kind"] + ":" + (case["opt"] if case["opt_kind"] != "default" else "adam"),
            "model:" + case["model"], "validation:" + str(validation), "n_times:%d" % n_times, "init:" + str(case["init"] is not None))


@st.composite
def bad_optimizer_case(draw):
    return {"kind": draw(st.sampled_from(["object", "function", "module_class", "string", "none", "optimizer_factory"])),
            "seed": draw(seed_s)}


def check_bad_optimizer(case, ctx):
    import pfhedge.instruments as I
    from pfhedge.nn import Hedger

    deriv = I.EuropeanOption(I.BrownianStock(), maturity=3 / 250)
    hedger = Hedger(torch.nn.Linear(2, 1), ["moneyness", "time_to_maturity"])
    bad = {"object": object(), "function": (lambda params: torch.optim.SGD(params, lr=0.1)), "module_class": torch.nn.Linear,
           "string": "Adam", "none": None, "optimizer_factory": dict}[case["kind"]]
    before = [p.detach().clone() for p in hedger.parameters()]
    ctx.expect_raises("C15/non-optimizer-accepted", (TypeError,),
                      lambda: hedger.fit(deriv, n_epochs=1, n_paths=2, optimizer=bad, verbose=False))
    ctx.check(params_equal(before, [p.detach().clone() for p in hedger.parameters()]), "C15/non-optimizer-side-effect",
              "parameters changed although the optimiser argument was rejected")
    ctx.nontrivial(True)
    ctx.cls("kind:" + case["kind"])


META = {
    "technique": "property-based testing: reference-model (explicit training loop) comparison with bitwise parameter equality, counting optimiser and probing model over Hypothesis-generated fit() configurations",
    "level_text": "Exploration: generated (epochs 0..4, batch size, n_times, optimiser class/instance/default, validation on/off, lazy and materialised models with Dropout, criteria, hedge lists, initial states, seeds); fit() must reproduce an explicit loop bitwise, call zero_grad/step exactly k times in order, change parameters only inside step, and run training/validation forwards in the documented modes.",
}


# ------------------------------------------------------------------ lazy model with an optimiser instance on its still-lazy parameters
@st.composite
def lazy_instance_case(draw):
    return {"steps": draw(st.integers(2, 5)), "epochs": draw(st.integers(1, 3)), "n_paths": draw(st.integers(2, 24)),
            "opt": draw(st.sampled_from(["sgd", "adam", "rmsprop"])), "validation": draw(st.booleans()),
            "model": draw(st.sampled_from(["mlp_lazy", "lazylinear"])), "hedge": draw(st.sampled_from(["default", "ul+listed"])),
            "model_seed": draw(seed_s), "fit_seed": draw(seed_s)}


def check_lazy_instance(case, ctx):
    """fit(optimizer=<instance>) with a lazy model whose parameters the instance was given before they materialised (torch allows
    it: the parameter objects materialise in place). The protocol is the same: k batches of the requested size, parameters equal
    to the explicit loop's."""
    import pfhedge.instruments as I
    from pfhedge.nn import Hedger, MultiLayerPerceptron

    k, n = case["epochs"], case["n_paths"]

    def make():
        ul = I.BrownianStock(cost=1e-3)
        deriv = I.EuropeanOption(ul, maturity=case["steps"] * ul.dt)
        hedge, H = None, 1
        if case["hedge"] == "ul+listed":
            o = I.EuropeanOption(ul, strike=1.05, maturity=deriv.maturity)
            o.list(PRICERS["tanh"], cost=1e-3)
            hedge, H = [ul, o], 2
        torch.manual_seed(case["model_seed"])
        model = MultiLayerPerceptron(out_features=H, n_layers=1, n_units=3) if case["model"] == "mlp_lazy" else torch.nn.LazyLinear(H)
        hedger = Hedger(model, ["moneyness", "time_to_maturity", "underlier_spot"])
        sizes = []
        orig = ul.simulate

        def logging_simulate(n_paths=1, **kw):
            sizes.append(n_paths)
            return orig(n_paths=n_paths, **kw)
        ul.simulate = logging_simulate
        base, kw = OPTS[case["opt"]]
        opt = base(list(hedger.model.parameters()), **kw)  # parameters still uninitialised
        return ul, deriv, hedge, hedger, opt, sizes

    ul, deriv, hedge, hedger, opt, sizes = make()
    torch.manual_seed(case["fit_seed"])
    with ctx.sut("C15/fit"):
        hedger.fit(deriv, hedge=hedge, n_epochs=k, n_paths=n, optimizer=opt, verbose=False, validation=case["validation"])
    ul_b, deriv_b, hedge_b, hedger_b, opt_b, sizes_b = make()
    torch.manual_seed(case["fit_seed"])
    for _ in range(k):
        hedger_b.train()
        opt_b.zero_grad()
        loss = hedger_b.compute_loss(deriv_b, hedge=hedge_b, n_paths=n)
        loss.backward()
        opt_b.step()
        if case["validation"]:
            hedger_b.eval()
            hedger_b.compute_loss(deriv_b, hedge=hedge_b, n_paths=n, enable_grad=False)
    want_sizes = [n] * (k * (2 if case["validation"] else 1))
    ctx.check(sizes == want_sizes, "C15/batch-size", f"fit() simulated batches of sizes {sizes}, requested {want_sizes}")
    pa, pb = [p.detach() for p in hedger.model.parameters()], [p.detach() for p in hedger_b.model.parameters()]
    same = len(pa) == len(pb) and all(a.shape == b.shape and bool(((a == b) | (a.isnan() & b.isnan())).all()) for a, b in zip(pa, pb))
    ctx.check(same, "C15/differs-from-explicit-loop",
              f"lazy model + optimiser instance ({case['opt']}): parameters after fit() differ from the explicit simulate/loss/backward/step loop")
    ctx.nontrivial(k >= 2)
    ctx.cls("opt:" + case["opt"], "model:" + case["model"], "validation:" + str(case["validation"]))


SUBS = [
    Sub("fit_protocol", check_fit,
        rule="k in 0..4, n_paths 1..24, n_times 1..3, optimiser default/class/instance in {SGD, Adam, Adadelta, RMSprop}, validation "
             "on/off, models lazy MLP / MLP / Linear+Dropout / LazyLinear+Dropout / recurrent+Dropout, 4 criteria, 2 hedge lists, "
             "default or given init_state, hedger left in train or eval mode beforehand. Non-trivial: k>=2 and (dropout or validation).",
        strategy=lambda tier: fit_case(), examples={"quick": 1280, "thorough": 12800}, fuzz={"thorough": 120.0}),
    Sub("lazy_instance", check_lazy_instance,
        rule="lazy model (lazy MLP / LazyLinear) x optimiser instance {SGD, Adam, RMSprop} constructed on the still-uninitialised parameters x "
             "k in 1..3 x n_paths 2..24 x validation on/off x 2 hedge lists: simulated batch sizes are exactly the requested ones and the "
             "parameters equal an explicit loop's bitwise. Non-trivial: k >= 2.",
        strategy=lambda tier: lazy_instance_case(), examples={"quick": 160, "thorough": 1600}),
    Sub("bad_optimizer", check_bad_optimizer,
        rule="non-optimiser arguments (object, function, nn.Module class, str, None, dict) must raise TypeError and leave parameters unchanged",
        strategy=lambda tier: bad_optimizer_case(), examples={"quick": 48, "thorough": 96}),
]
