import torch, warnings
warnings.filterwarnings("ignore")
from pfhedge.instruments import *
from pfhedge.nn import *
torch.manual_seed(0)
prims={'B':lambda:BrownianStock(cost=1e-3),'H':lambda:HestonStock(cost=1e-3),'Hx':lambda:HestonStock(cost=1e-3,sigma=1.5,kappa=0.5),'M':lambda:MertonJumpStock(cost=1e-3),'K':lambda:KouJumpStock(cost=1e-3),'R':lambda:RoughBergomiStock(cost=1e-3),'L':lambda:LocalVolatilityStock(lambda t,s:0.2+0.1*torch.tanh(s-1),cost=1e-3)}
for pn,pf in prims.items():
    for D in [EuropeanOption, EuropeanBinaryOption, AmericanBinaryOption, LookbackOption]:
        for strike in [1.0, 0.97, 1.05]:
            d=D(pf(), strike=strike); d.simulate(2000)
            for mk in ['bs','ww']:
                m=BlackScholes(d) if mk=='bs' else WhalleyWilmott(d)
                h=Hedger(m,m.inputs())
                try:
                    hd=h.compute_hedge(d); pl=h.compute_pl(d)
                    nb=(~hd.isfinite()).sum().item(); npl=(~pl.isfinite()).sum().item()
                    if nb or npl: print(pn,D.__name__,strike,mk,"nonfinite hedge",nb,"pl",npl, "minvar", d.ul().variance.min().item() if hasattr(d.ul(),'variance') else None)
                except Exception as e:
                    print(pn,D.__name__,strike,mk,"ERR",type(e).__name__,str(e)[:120])
print("done")
