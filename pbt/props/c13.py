"""C13 - The time grid matches maturity and step size."""
import math
from fractions import Fraction as Fr

import torch
from hypothesis import strategies as st

from ..core import Sub
from ..gens import EPS, OPTIONS, PRIMARIES, STOCKS, build_primary, fl, primary_spec, seed_s

PROPERTY_ID = "C13"
ASSUMPTIONS = [
    "T = ceil(r)+1 with r the exact rational ratio of the two floats maturity and dt; when |r-k| <= 8 ulp(k) for an "
    "integer k, exactly k+1 points are required (the statement's rounding clause; the k+2 points the original tree gave when "
    "the float quotient landed above k were repaired in /repo, F17)",
    "time_to_maturity compared with (T-1-i)*dt at 4*eps(dtype)*(T-1)*dt absolute",
    "grids are kept at <= 80 points so that every simulator stays cheap",
]

DTS = [1 / 250, 1 / 365, 1 / 12, 1 / 52, 0.1, 0.01, 1 / 252, 0.004, 1 / 3]


@st.composite
def grid_case(draw):
    ul = draw(primary_spec(dtype="any", cost=False, default_params=True, dts=DTS))
    if draw(st.integers(0, 4)) == 0:
        ul["dt"] = draw(fl(1e-3, 0.5))
    dt = ul["dt"]
    kind = draw(st.sampled_from(["integral", "integral", "fractional", "product", "tiny"] * 3 + ["zero"]))
    k = draw(st.integers(1, 60))
    if kind == "integral":
        maturity = k * dt  # float product: the ratio lands within an ulp of k, on either side
        label = "integral"
    elif kind == "product":
        maturity = k / round(1 / dt) if round(1 / dt) > 0 else k * dt  # e.g. 20/250 written the usual way
        label = "integral-as-quotient"
    elif kind == "zero":
        # a contract expiring at once: one time point.  (RoughBergomiStock cannot simulate a single point: known
        # finding K4 of C11, excluded here by construction.)
        maturity, k, label = 0.0, 0, "zero"
        if ul["type"] == "RoughBergomiStock":
            ul["type"] = "BrownianStock"
            ul["params"] = {}
    elif kind == "tiny":
        # just above / just below an integer ratio, but far outside rounding distance
        maturity = (k - 1 + draw(st.sampled_from([1e-3, 1e-5, 1e-7, 1 - 1e-5, 1 - 1e-7]))) * dt
        label = "fractional"
    else:
        maturity = (k - 1 + draw(fl(0.02, 0.98))) * dt
        label = "fractional"
    if maturity <= 0 and kind != "zero":
        maturity = dt
    deriv = draw(st.sampled_from(OPTIONS + ["EuropeanForwardStartOption", "VarianceSwap", "Spread"]))
    ul2 = None
    if deriv == "Spread":
        ul2 = draw(primary_spec(types=STOCKS, dtype=ul["dtype"], cost=False, default_params=True, dts=DTS))
    if kind == "zero" and ul2 is not None and ul2["type"] == "RoughBergomiStock":
        ul2["type"], ul2["params"] = "BrownianStock", {}
    return {"ul": ul, "ul2": ul2, "maturity": maturity, "ratio_kind": label, "k": k, "deriv": deriv,
            "call": draw(st.booleans()), "strike": draw(st.sampled_from([1.0, 0.9, 1.1])),
            "n_paths": draw(st.integers(1, 4)), "sim_seed": draw(seed_s),
            # simulate(n_paths, init_state): the documented second argument, here the instrument's own default state given explicitly
            "explicit_init": draw(st.booleans()),
            "start_k": draw(st.integers(0, max(k, 0)))}


def expected_T(maturity: float, dt: float):
    """-> (T of the exact ratio, admissible T, exact ratio). Within 8 ulps of an integer k (either side): k+1 points and
    nothing else (the statement's rounding clause); clearly off the grid: ceil(r)+1; in the band between 8 ulps and 1e-8
    (neither; not generated) both."""
    r = Fr(maturity) / Fr(dt)
    exact = math.ceil(r) + 1
    k = round(r)
    gap = abs(r - k)
    if k >= 1 and gap <= Fr(8 * 2.0 ** -52) * k:
        ok = {k + 1}
    elif gap <= Fr(1, 10 ** 8):
        ok = {exact, k + 1}
    else:
        ok = {exact}
    return exact, ok, r


def make_spread():
    from pfhedge.instruments import BaseDerivative

    class Spread(BaseDerivative):
        """User derivative on two underliers (each keeps its own step size)."""

        def __init__(self, a, b, maturity):
            super().__init__()
            self.register_underlier("a", a)
            self.register_underlier("b", b)
            self.maturity = maturity

        def payoff_fn(self):
            return torch.nn.functional.relu(self.ul(0).spot[:, -1] - self.ul(1).spot[:, -1])

    return Spread


class TwoColumns(torch.nn.Module):
    """Parameter-free model for two hedging instruments: (time to maturity, 2*spot+1)."""

    def forward(self, input):
        return torch.stack([input[..., 0], 2.0 * input[..., 1] + 1.0], dim=-1)


def check_grid(case, ctx):
    import pfhedge.instruments as I
    from pfhedge.features import get_feature
    from pfhedge.nn import Hedger, Naked

    ul = build_primary(case["ul"])
    M = case["maturity"]
    uls = [ul]
    if case["deriv"] == "Spread":
        ul2 = build_primary(case["ul2"])
        uls.append(ul2)
        deriv = make_spread()(ul, ul2, M)
    elif case["deriv"] in OPTIONS:
        deriv = getattr(I, case["deriv"])(ul, call=case["call"], strike=case["strike"], maturity=M)
    elif case["deriv"] == "EuropeanForwardStartOption":
        deriv = I.EuropeanForwardStartOption(ul, strike=case["strike"], maturity=M, start=case.get("start_k", 0) * ul.dt)
    else:
        deriv = I.VarianceSwap(ul, maturity=M)
    sigma_times = []
    if case["ul"]["type"] == "LocalVolatilityStock":
        inner = ul.sigma_fn

        def recording_sigma_fn(time, spot):
            sigma_times.append(float(time))
            return inner(time, spot)
        ul.sigma_fn = recording_sigma_fn
    torch.manual_seed(case["sim_seed"])
    with ctx.sut("C13/simulate"):
        if case.get("explicit_init") and case["deriv"] != "Spread":
            deriv.simulate(n_paths=case["n_paths"], init_state=tuple(ul.default_init_state))
        else:
            deriv.simulate(n_paths=case["n_paths"])
    ctx.cls("init_state-given:" + str(bool(case.get("explicit_init") and case["deriv"] != "Spread")))
    if sigma_times:
        # the local volatility function is asked at the grid times i*dt
        want_t = [i * ul.dt for i in range(len(sigma_times))]
        ctx.check(all(abs(a - b) <= 1e-6 * max(b, ul.dt) for a, b in zip(sigma_times, want_t)), "C13/local-vol-grid",
                  f"sigma_fn was evaluated at times {sigma_times[:4]}, the grid is {want_t[:4]} (dt={ul.dt!r})")
    borderline = False
    for j, u in enumerate(uls):
        exact, ok, r = expected_T(M, u.dt)
        borderline = borderline or exact not in ok or abs(r - round(r)) <= Fr(8 * 2.0 ** -52) * max(round(r), 1)
        for name, buf in u.named_buffers():
            if not ctx.check(buf.dim() == 2 and buf.shape[0] == case["n_paths"] and buf.shape[1] in ok,
                             "C13/n-steps", f"underlier {j} ({type(u).__name__}) buffer '{name}' has shape {tuple(buf.shape)}; "
                             f"maturity/dt = {float(r)!r} requires T in {sorted(ok)}", maturity=M, dt=u.dt):
                return
    Tn = ul.spot.shape[1]
    dtn = {torch.float32: "float32", torch.float64: "float64"}[ul.spot.dtype]
    if case["deriv"] in OPTIONS:
        eps = EPS[dtn]
        tol = 4 * eps * max((Tn - 1) * ul.dt, ul.dt)
        with ctx.sut("C13/time_to_maturity"):
            full = deriv.time_to_maturity()
        if ctx.check(tuple(full.shape) == (case["n_paths"], Tn), "C13/ttm-shape", f"time_to_maturity() shape {tuple(full.shape)}"):
            want = torch.tensor([(Tn - 1 - i) * ul.dt for i in range(Tn)], dtype=torch.float64)
            err = (full.double() - want).abs().max().item()
            ctx.check(err <= tol, "C13/ttm-value", f"time_to_maturity() deviates from (T-1-i)*dt by {err:.3e} > {tol:.3e}",
                      got=full[0][:5], want=want[:5])
            ctx.check(bool((full == full[[0]]).all()), "C13/ttm-paths", "time to maturity differs across paths")
            ctx.check(bool((full[:, -1] == 0).all()), "C13/ttm-zero-at-maturity", f"time to maturity at the last step is {full[0, -1].item()!r}, not 0")
            if Tn > 1:
                ctx.check(bool((full[:, 1:] < full[:, :-1]).all()), "C13/ttm-decreasing", "time to maturity is not strictly decreasing")
        for i in list(range(Tn)) + list(range(-Tn, 0)):
            with ctx.sut("C13/time_to_maturity"):
                one = deriv.time_to_maturity(i)
            w = (Tn - 1 - (i % Tn)) * ul.dt
            if not ctx.check(tuple(one.shape) == (case["n_paths"], 1) and abs(one.double() - w).max().item() <= tol,
                             "C13/ttm-stepwise", f"time_to_maturity({i}) = {one.flatten()[0].item()!r}, expected {(w)!r} (T={Tn})"):
                break
        last = deriv.time_to_maturity(Tn - 1)
        ctx.check(bool((last == 0).all()), "C13/ttm-zero-at-maturity", "time_to_maturity(T-1) is not exactly 0")
        # features, hedge and payoff live on the same grid
        f = get_feature("time_to_maturity").of(deriv)
        ctx.check(f.get(None).shape[1] == Tn, "C13/feature-grid", "time_to_maturity feature uses another grid")
        f = get_feature("moneyness").of(deriv)
        ctx.check(f.get(None).shape[1] == Tn, "C13/feature-grid", "moneyness feature uses another grid")
        # ... at every single grid point, counted from the start or from the end
        for fname_ in ("moneyness", "log_moneyness", "underlier_spot"):
            fb = get_feature(fname_).of(deriv)
            with ctx.sut("C13/feature"):
                allsteps = fb.get(None)
            for i in list(range(Tn)) + list(range(-Tn, 0)):
                with ctx.sut("C13/feature"):
                    one = fb.get(i)
                if not ctx.check(tuple(one.shape) == (case["n_paths"], 1, 1) and bool(((one == allsteps[:, [i]]) | (one.isnan() & allsteps[:, [i]].isnan())
                                                                                        | ((one - allsteps[:, [i]]).abs() <= 4 * eps * allsteps[:, [i]].abs())).all()),
                                 "C13/feature-grid", f"{fname_} at grid point {i} (of {Tn}) has shape {tuple(one.shape)} / differs from column {i} of the all-steps form"):
                    break
        if Tn >= 2:
            hedger = Hedger(Naked(), ["moneyness", "time_to_maturity"])
            with ctx.sut("C13/compute_hedge"):
                out = hedger.compute_hedge(deriv)
            ctx.check(tuple(out.shape) == (case["n_paths"], 1, Tn), "C13/hedge-grid", f"hedge shape {tuple(out.shape)} for T={Tn}")
            # two hedging instruments: entry [n, h, t] of the hedge is what the model returns for instrument h from
            # the features at grid point t (the last column repeats the one before)
            hedger2 = Hedger(TwoColumns(), ["time_to_maturity", "underlier_spot"])
            with torch.no_grad():
                with ctx.sut("C13/compute_hedge"):
                    out2 = hedger2.compute_hedge(deriv, hedge=[ul, ul])
            if ctx.check(tuple(out2.shape) == (case["n_paths"], 2, Tn), "C13/hedge-grid", f"hedge shape {tuple(out2.shape)} for T={Tn}, H=2"):
                w0 = full.clone()
                w1 = 2.0 * ul.spot + 1.0
                w0[:, -1], w1[:, -1] = w0[:, -2], w1[:, -2]
                ctx.check(float((out2[:, 0] - w0).abs().max()) <= tol and bool(((out2[:, 1] - w1).abs() <= 8 * eps * w1.abs()).all()),
                          "C13/hedge-grid", "with two hedging instruments, hedge[:, h, t] is not the model output for instrument h at grid point t",
                          got=out2[0, :, :3], want=torch.stack([w0[0, :3], w1[0, :3]]))
    if case["deriv"] == "EuropeanForwardStartOption" and Tn >= 1:
        # the start date k*dt is the grid point k: the payoff is taken on this same grid
        kk = case.get("start_k", 0)
        if kk < Tn and bool((ul.spot[:, kk] > 0).all()):
            want = torch.relu(ul.spot[:, -1] / ul.spot[:, kk] - case["strike"])
            with ctx.sut("C13/payoff"):
                got = deriv.payoff()
            ctx.check(bool(((got - want).abs() <= 8 * EPS[dtn] * (want.abs() + case["strike"] + 1)).all()), "C13/payoff-grid",
                      f"forward-start payoff does not use grid point {kk} for the start time {kk}*dt")
    if case["deriv"] == "EuropeanOption":
        S = ul.spot[:, -1]
        want = torch.relu(S - case["strike"]) if case["call"] else torch.relu(case["strike"] - S)
        with ctx.sut("C13/payoff"):
            got = deriv.payoff()
        ctx.check(torch.equal(got, want), "C13/payoff-grid", "European payoff is not evaluated on the last grid point")
    ctx.nontrivial(case["ratio_kind"] == "fractional" or case["k"] != 20)
    ctx.cls("ratio:" + case["ratio_kind"], "ul:" + case["ul"]["type"], "deriv:" + case["deriv"],
            "borderline:" + str(borderline), "dtype:" + dtn)


# ------------------------------------------------------------------ objects shared between derivatives
@st.composite
def shared_case(draw):
    dts = draw(st.lists(st.sampled_from(DTS), min_size=2, max_size=3, unique=True))
    return {"dts": dts, "steps": draw(st.integers(1, 12)), "n_paths": draw(st.integers(1, 3)),
            "dtype": draw(st.sampled_from([None, "float64"])), "types": [draw(st.sampled_from(OPTIONS)) for _ in dts],
            "order": draw(st.permutations(list(range(len(dts))))), "seed": draw(seed_s),
            "ul": draw(st.sampled_from(["BrownianStock", "HestonStock", "MertonJumpStock"]))}


def check_shared(case, ctx):
    """The same feature / hedger objects used on several derivatives of equal (n_paths, n_steps) but different dt."""
    import pfhedge.instruments as I
    from pfhedge.features import get_feature
    from pfhedge.nn import Hedger

    from ..gens import DTYPES

    class FirstColumn(torch.nn.Module):
        def forward(self, input):
            return input[..., [0]] * 1.0

    dtype = DTYPES[case["dtype"]] if case["dtype"] else None
    feats = {n: get_feature(n) for n in ("time_to_maturity", "expiry_time")}
    hedger = Hedger(FirstColumn(), ["time_to_maturity", "moneyness"])
    eps = EPS["float64" if case["dtype"] else "float32"]
    ders = []
    for dt, typ in zip(case["dts"], case["types"]):
        ul = getattr(I, case["ul"])(dt=dt, dtype=dtype)
        ders.append(getattr(I, typ)(ul, maturity=case["steps"] * dt))
    torch.manual_seed(case["seed"])
    for d in ders:
        d.simulate(n_paths=case["n_paths"])
    shapes = {tuple(d.ul().spot.shape) for d in ders}
    for rnd in range(2):
        for j in case["order"]:
            d = ders[j]
            dt = d.ul().dt
            Tn = d.ul().spot.shape[1]
            want = torch.tensor([(Tn - 1 - i) * dt for i in range(Tn)], dtype=torch.float64)
            tol = 4 * eps * max((Tn - 1) * dt, dt)
            for n, f in feats.items():
                with ctx.sut("C13/shared/feature"):
                    full = f.of(d).get(None)[0, :, 0].double()
                    ones = torch.stack([f.of(d).get(i)[0, 0, 0].double() for i in range(Tn)])
                if not ctx.check(float((full - want).abs().max()) <= tol and float((ones - want).abs().max()) <= tol, "C13/shared-feature-grid",
                                 f"{n} feature object reused on a derivative with dt={dt!r} (after others with dt {case['dts']}) gives "
                                 f"{full[:3].tolist()} / {ones[:3].tolist()}, expected {want[:3].tolist()}"):
                    return
            if Tn >= 2:
                with torch.no_grad():
                    with ctx.sut("C13/shared/hedger"):
                        inp = hedger.get_input(d, None)[0, :, 0].double() if rnd else None
                        out = hedger.compute_hedge(d)[0, 0, :].double()
                w2 = want.clone()
                w2[-1] = w2[-2]
                if not ctx.check(float((out - w2).abs().max()) <= tol, "C13/shared-hedger-grid",
                                 f"hedger reused across derivatives feeds time to maturity {out[:3].tolist()} for dt={dt!r}, expected {want[:3].tolist()}"):
                    return
    ctx.nontrivial(len(shapes) == 1)
    ctx.cls("n-derivatives:%d" % len(ders), "same-shape:" + str(len(shapes) == 1))


META = {
    "technique": "property-based testing: Hypothesis-generated (maturity, dt, instrument) configurations vs exact rational grid-size oracle",
    "level_text": "Exploration: maturities built as k*dt in floats (ratios one ulp either side of integers), as quotients and as non-integral multiples, for all 8 primaries, all option types and a two-underlier user derivative; grid size from exact rationals, time to maturity at every (also negative) index.",
}

SUBS = [
    Sub("grid", check_grid,
        rule="dt from {1/250,1/365,1/12,1/52,0.1,0.01,1/252,0.004,1/3} or a drawn float, maturity = k*dt (float product), "
             "k/round(1/dt) or a non-integral multiple, k<=60; every primary, option type, forward start, variance swap and "
             "a user derivative with two underliers of different dt. Non-trivial: non-integral ratio or k != 20.",
        strategy=lambda tier: grid_case(), examples={"quick": 3000, "thorough": 30000}, fuzz={"thorough": 60.0}),
    Sub("shared_objects", check_shared,
        rule="one TimeToMaturity / ExpiryTime feature object and one Hedger used in a drawn order (twice) on 2-3 derivatives with the same "
             "number of paths and steps but different dt (hence different maturities): the time grid each sees must be its own. "
             "Non-trivial: all derivatives have the same buffer shape.",
        strategy=lambda tier: shared_case(), examples={"quick": 500, "thorough": 5000}),
]
