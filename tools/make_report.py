#!/venv/bin/python
"""Regenerates the measured tables of DESIGN.md section 8 (between the AUTO markers) from evidence/, mutants/results_*.json
and seeded/*/meta.json + seeded/results.json."""
import glob
import json
import os
import re

HERE = os.path.dirname(os.path.dirname(os.path.abspath(__file__)))
INITIALLY_MISSED = {  # seeded changes the checks did not catch when first run against them (then strengthened, see 8.4)
    "C02-1": "hedge evaluated only under no_grad; now also with autograd enabled",
    "C03-1": "features evaluated after one simulate only; now a second simulate of the same object with the same bound features",
    "C13-3": "fresh feature objects per case; new sub `shared_objects` (one feature/hedger object on derivatives of equal shape, different dt)",
    "C14-1": "gradients checked in train mode only; now train and eval mode",
    "C14-3": "evaluation-only clause checked with parameter-free criteria only; now also OCE (owns a parameter), both outer grad modes",
    "C16-1": "no user model whose output aliases its input; `identity` model on a single buffer-view feature added to the scenarios",
    "C17-2": "derived outputs computed only at the end of a history; new op `eval` uses payoff/features/P&L mid-history",
    "C17-3": "loss/price evaluated with n_times=1 only; n_times>1 added",
    "C05-3": "utility exponent a|x| capped at 80 for both dtypes; now up to the dtype's range (84 / 700)",
    "C08-3": "user pricers consumed one spot-like parameter; now also `spot` together with `(log_)moneyness`",
    "C12-1": "clauses were registered under names whose alphabetical order equals the registration order; names now deliberately out of order",
    "C12-3": "NOT detectable by design (see below): differs from the original only where start/dt is within rounding of an integer",
    "C06-r2-1": "a|x| capped at 20 for every criterion; the entropic risk measure (closed-form cash) now also gets a|x| up to 3000",
    "C06-r2-3": "price() checked with cash-invariant criteria only; isoelastic and a user power utility (with an endowment clause) added",
    "C03-r2-3": "single steps were always requested in increasing consecutive order; second round now skips forward and comes back",
    "C11-r2-1": "no cast between the simulations of an instrument history; casts (after the volatility/variance properties were read) added",
    "C14-r2-1": "no gradient path through prices; a listed hedging instrument whose quote depends on a model parameter added",
    "C01-r3-1": "hedged derivatives carried no clauses; scenarios now draw knock-out / leverage clauses (payoff() != payoff_fn())",
    "C04-r3-2": "the relation tolerance was computed from the definition (exp(700) scale) and hid a loss saturated at exp(88); now capped by the same multiple of the computed loss; float64 exponents up to 700",
    "C07-r3-1": "bound modules were called with no or all arguments; now also with exactly one explicit argument",
    "C12-r3-2": "every clause was a distinct callable; identical clause specs now share one callable registered under several names",
    "C15-r3-1": "one fit() per hedger; now a second fit() on the same hedger with the same optimiser argument",
    "C18-r3-3": "tiny t and v whose product underflows (both non-zero) were not on the boundary grid; added 1e-30 x 1e-31 (float32) and 1e-300 x 1e-200 (float64)",
    "C19-1": "bracket tensors used once; now a second search with the same bracket objects vs fresh copies (differential)",
}


def table_checks():
    rows = ["| id | sub-checks (cases in the quick tier) | evaluations | distinct non-trivial | wall (s) | known findings shown |", "|---|---|---|---|---|---|"]
    for f in sorted(glob.glob(os.path.join(HERE, "evidence", "C*.json"))):
        e = json.load(open(f))
        c = e["coverage"]
        subs = ", ".join(f"{k} ({v['evaluations']})" for k, v in c.get("subchecks", {}).items() if v["evaluations"])
        kf = ", ".join(c.get("known_findings", {}).get("known_reproduced", [])) or "-"
        rows.append(f"| {e['property_id']} | {subs} | {c['evaluations']} | {c['distinct_nontrivial']} | {e['wall_s']:.0f} | {kf} |")
    return "\n".join(rows)


def table_mutants():
    tot, caught, names = {}, {}, {}
    for f in glob.glob(os.path.join(HERE, "mutants", "results*.json")):
        for r in json.load(open(f)):
            p = r["property"]
            tot[p] = tot.get(p, 0) + 1
            caught[p] = caught.get(p, 0) + bool(r["caught"])
            names.setdefault(p, []).append(r["mutant"] + ("" if r["caught"] else " (MISSED)"))
    rows = ["| id | mutants caught / run | mutants |", "|---|---|---|"]
    for p in sorted(tot):
        rows.append(f"| {p} | {caught[p]}/{tot[p]} | {', '.join(sorted(names[p]))} |")
    rows.append(f"| all | {sum(caught.values())}/{sum(tot.values())} | |")
    return "\n".join(rows)


def table_seeded():
    path = os.path.join(HERE, "seeded", "results.json")
    res = {r["name"]: r for r in json.load(open(path))} if os.path.exists(path) else {}
    rows = ["| seeded change | what it changes / needs (from its notes) | caught by (labels, quick tier) | first run |", "|---|---|---|---|"]
    n = c = first = 0
    for d in sorted(glob.glob(os.path.join(HERE, "seeded", "C*"))):
        name = os.path.basename(d)
        meta = json.load(open(os.path.join(d, "meta.json")))
        r = res.get(name, {})
        chk = (r.get("checks") or {}).get(meta["property"], {})
        labels = ", ".join(chk.get("labels", [])[:4]) or "-"
        title = next((l for l in meta.get("needs_to_manifest", "").splitlines() if l.strip()), "")
        summary = meta.get("summary") or re.sub(r"^#+\s*", "", title).replace("|", "/")[:170]
        n += 1
        c += bool(r.get("caught"))
        fr = "missed: " + INITIALLY_MISSED[name] if name in INITIALLY_MISSED else ("caught" if r.get("caught") else "MISSED")
        first += name not in INITIALLY_MISSED and bool(r.get("caught"))
        rows.append(f"| {name} | {summary} | {labels if r.get('caught') else 'MISSED'} | {fr} |")
    rows.append(f"| total {n} | | caught now: {c}/{n} | caught on first run: {first}/{n} |")
    return "\n".join(rows)


def main():
    p = os.path.join(HERE, "DESIGN.md")
    s = open(p).read()
    for key, fn in (("CHECKS", table_checks), ("MUTANTS", table_mutants), ("SEEDED", table_seeded)):
        a, b = f"<!-- AUTO:{key} -->", f"<!-- /AUTO:{key} -->"
        if a in s and b in s:
            s = s[: s.index(a) + len(a)] + "\n" + fn() + "\n" + s[s.index(b):]
    open(p, "w").write(s)


if __name__ == "__main__":
    main()
