"""C09 - Black-Scholes prices respect no-arbitrage structure (relations between prices, float64)."""
import math

import torch
from hypothesis import strategies as st

from ..core import Sub
from ..gens import fl

PROPERTY_ID = "C09"
REL = 1e-12  # tolerance = REL * scale (DESIGN.md C09), float64 only
DT = torch.float64

ASSUMPTIONS = [
    "float64 functional forms; every relation is checked with slack 1e-12*scale, scale = max(K, S, M_run) over the points of "
    "the relation for European / lookback prices and 1 for the two binaries (rounding of a price is a few eps*scale)",
    "'increase' / 'convex' / 'do not decrease' are checked as weak inequalities with that slack (a strict increase cannot be "
    "resolved where both prices are below rounding); a case counts as strict / non-trivial when the two sides differ by more than the slack",
    "monotonicity in spot, volatility, maturity is asserted for the European call and - as in DESIGN.md - for the lookback call and "
    "the American binary at a fixed running maximum M_run >= all spots of the pair (all three follow from the definitions: "
    "payoffs non-decreasing / convex in the terminal resp. maximal price, and the law depends on v^2 t only)",
    "continuity across M_run = K: lookback is 1-Lipschitz and non-decreasing in M_run (|max(M2,x)-max(M1,x)| <= M2-M1), checked on "
    "pairs straddling the strike with steps 1e-12..1e-1; American binary: while M_run < K the price must tend to 1 as the spot "
    "(hence the running max) approaches the strike, 1 - price <= d*(2/(v sqrt(2 pi t)) + 1) for spot = K e^-d, a bound that "
    "follows from the running-maximum law, not from the library's formula",
]


def _tiny(lo_exp, hi_exp, sign=1.0):
    return st.floats(lo_exp, hi_exp).map(lambda e: sign * 10.0 ** e)


s_elem = st.one_of(fl(-1.0, 1.0), fl(-1.0, 1.0), fl(-0.2, 0.2), st.sampled_from([0.0, -1.0, 1.0]), _tiny(-9, -2), _tiny(-9, -2, -1.0))
s_below = st.one_of(fl(-1.0, -0.001), fl(-0.3, -0.001), st.just(-1.0), _tiny(-9, -3, -1.0))
t_elem = st.one_of(fl(0.01, 5.0), fl(0.01, 5.0), fl(0.01, 1.0), st.sampled_from([1.0, 5.0, 0.25, 20 / 250]), _tiny(-8, 0), _tiny(-30, -3))
v_elem = st.one_of(fl(0.01, 2.0), fl(0.05, 0.8), fl(0.05, 0.8), st.sampled_from([0.2, 1.0, 2.0]), _tiny(-5, 0), _tiny(-30, -2))
k_elem = st.one_of(fl(math.nextafter(0.1, 1.0), 10.0), fl(0.5, 2.0), st.sampled_from([1.0, 10.0, 0.5, 2.0, 1.25]))
gap_elem = st.one_of(fl(0.001, 2.0), fl(0.001, 0.3), _tiny(-8, -3))  # step of a constructed pair (log-moneyness)
ratio_elem = st.one_of(fl(1.001, 10.0), fl(1.001, 1.5), _tiny(-8, -3).map(lambda x: 1.0 + x))  # v2/v1, t2/t1


@st.composite
def running_max(draw, s_top):
    """log running max >= s_top: equal (about 30%), tiny / moderate excess, exactly the strike, or kept below the strike."""
    if s_top < 0 and draw(st.integers(0, 9)) < 4:
        frac = draw(st.one_of(st.just(0.0), fl(0.001, 0.999), fl(0.001, 0.999), _tiny(-9, -2)))
        m = s_top * (1.0 - frac)
    else:
        excess = draw(st.one_of(st.just(0.0), st.just(0.0), fl(0.001, 1.5), fl(0.001, 0.3), fl(0.001, 0.3), _tiny(-9, -2)))
        floor = draw(st.sampled_from([-5.0, -5.0, -5.0, -5.0, 0.0]))
        m = max(s_top + excess, floor)
    return max(m, s_top)


def T(xs):
    return torch.tensor(xs, dtype=DT)


def prices(ctx, s, m, t, v, K):
    """All six functional prices at vectors of points (lists of floats)."""
    import pfhedge.nn.functional as F

    s_, t_, v_ = T(s), T(t), T(v)
    out = {}
    with ctx.sut("C09/price"):
        out["C"] = F.bs_european_price(s_, t_, v_, strike=K, call=True)
        out["P"] = F.bs_european_price(s_, t_, v_, strike=K, call=False)
        out["BC"] = F.bs_european_binary_price(s_, t_, v_, call=True)
        out["BP"] = F.bs_european_binary_price(s_, t_, v_, call=False)
        if m is not None:
            m_ = T(m)
            out["AB"] = F.bs_american_binary_price(s_, m_, t_, v_)
            out["L"] = F.bs_lookback_price(s_, m_, t_, v_, K)
    bad = [k for k, x in out.items() if not bool(torch.isfinite(x).all())]
    if bad:
        ctx.fail("C09/finite", f"non-finite price(s) {bad} inside the open domain", s=s, m=m, t=t, v=v, K=K)
        return None
    return {k: x.tolist() for k, x in out.items()}


class Rel:
    """Collects relation verdicts of one case; counts strict instances per relation."""

    def __init__(self, ctx, where):
        self.ctx, self.where, self.strict = ctx, where, False

    def le(self, name, a, b, scale, what):
        """a <= b (+ slack)."""
        tol = REL * scale
        self.ctx.check(a <= b + tol, "C09/" + name, f"{what}: {a!r} > {b!r} by {a - b:.3e} (slack {tol:.1e}) at {self.where}",
                       lhs=a, rhs=b, **self.where)
        if b - a > tol:
            self.strict = True
            self.ctx.cls("strict:" + name)
        else:
            self.ctx.cls("tight:" + name)

    def eq(self, name, a, b, scale, what, nontrivial):
        tol = REL * scale
        self.ctx.check(abs(a - b) <= tol, "C09/" + name, f"{what}: {a!r} != {b!r} (diff {a - b:.3e}, slack {tol:.1e}) at {self.where}",
                       lhs=a, rhs=b, **self.where)
        if nontrivial:
            self.strict = True
            self.ctx.cls("strict:" + name)
        else:
            self.ctx.cls("tight:" + name)


# --------------------------------------------------------------------------------------------
# A. relations at one point
# --------------------------------------------------------------------------------------------
@st.composite
def point_case(draw):
    n = draw(st.integers(1, 3))
    pts = []
    for _ in range(n):
        s = draw(st.one_of(s_elem, s_below))
        pts.append({"s": s, "m": draw(running_max(s)), "t": draw(t_elem), "v": draw(v_elem)})
    return {"K": draw(k_elem), "pts": pts}


def check_point(case, ctx):
    K, pts = case["K"], case["pts"]
    s, m, t, v = ([p[k] for p in pts] for k in "smtv")
    pr = prices(ctx, s, m, t, v, K)
    if pr is None:
        return
    nt = False
    for i, p in enumerate(pts):
        S, M = K * math.exp(p["s"]), K * math.exp(p["m"])
        sc = max(K, S, M)
        r = Rel(ctx, dict(p, K=K))
        C, P, BC, BP, AB, L = (pr[k][i] for k in ("C", "P", "BC", "BP", "AB", "L"))
        has_tv = min(C, P) > REL * sc  # parity is not "x - 0 = x": both legs are alive
        r.eq("parity", C - P, S - K, sc, "call - put = spot - strike", has_tv)
        r.eq("binary-sum", BC + BP, 1.0, 1.0, "binary call + binary put = 1", min(BC, BP) > REL)
        r.le("call-lower-bound", max(S - K, 0.0), C, sc, "intrinsic value <= call")
        r.le("call-upper-bound", C, S, sc, "call <= spot")
        for name, x in (("binary-call", BC), ("binary-put", BP), ("american-binary", AB)):
            r.le(name + "-in-01", 0.0, x, 1.0, name + " >= 0")
            r.le(name + "-in-01", x, 1.0, 1.0, name + " <= 1")
        r.le("lookback-ge-call", C, L, sc, "European call <= lookback call")
        r.le("lookback-ge-locked", max(M - K, 0.0), L, sc, "locked-in payoff (M_run - K)+ <= lookback call")
        r.le("american-ge-european-binary", BC, AB, 1.0, "European binary call <= American binary")
        if p["m"] >= 0:
            # non-trivial where the spot is below the strike: only the running max says "already hit"
            r.eq("american-binary-hit", AB, 1.0, 1.0, "American binary = 1 once M_run >= K", p["s"] < 0)
        ctx.cls("max:" + ("<K" if p["m"] < 0 else ("==K" if p["m"] == 0 else ">K")), "max:" + ("==spot" if p["m"] == p["s"] else ">spot"))
        nt = nt or r.strict
    ctx.nontrivial(nt)


# --------------------------------------------------------------------------------------------
# B. constructed pairs / triples in spot, volatility, maturity
# --------------------------------------------------------------------------------------------
@st.composite
def pair_case(draw):
    axis = draw(st.sampled_from(["spot", "spot", "vol", "mat"]))
    K = draw(k_elem)
    s1 = draw(st.one_of(s_elem, s_below))
    case = {"axis": axis, "K": K, "t": draw(t_elem), "v": draw(v_elem)}
    if axis == "spot":
        s1 = min(s1, 1.0 - 1e-9)
        s3 = min(1.0, s1 + draw(gap_elem))
        lam = draw(st.sampled_from([0.5, 0.5, 0.25, 0.9, 0.1]))
        S1, S3 = K * math.exp(s1), K * math.exp(s3)
        S2 = lam * S1 + (1 - lam) * S3
        s2 = min(max(math.log(S2 / K), s1), s3)
        case.update(s=[s1, s2, s3], lam=lam, m=draw(running_max(s3)))
    else:
        case.update(s=[s1], m=draw(running_max(s1)))
        r = draw(ratio_elem)
        if axis == "vol":
            case["v"] = min(case["v"], 2.0 / 1.0000001)
            case["v2"] = min(2.0, case["v"] * r)
        else:
            case["t"] = min(case["t"], 5.0 / 1.0000001)
            case["t2"] = min(5.0, case["t"] * r)
    return case


def check_pair(case, ctx):
    K, axis = case["K"], case["axis"]
    s, m0 = case["s"], case["m"]
    if axis == "spot":
        n = 3
        t, v = [case["t"]] * n, [case["v"]] * n
        s_ = s
    else:
        n = 2
        s_ = s * 2
        t = [case["t"], case.get("t2", case["t"])]
        v = [case["v"], case.get("v2", case["v"])]
    m = [m0] * n
    pr = prices(ctx, s_, m, t, v, K)
    if pr is None:
        return
    S = [K * math.exp(x) for x in s_]
    sc = max(K, max(S), K * math.exp(m0))
    where = {"K": K, "s": s_, "m": m0, "t": t, "v": v}
    r = Rel(ctx, where)
    names = {"C": ("call", sc), "L": ("lookback", sc), "AB": ("american-binary", 1.0)}
    ax = {"spot": "spot", "vol": "vol", "mat": "maturity"}[axis]
    for key, (nm, scale) in names.items():
        x = pr[key]
        for i in range(n - 1):
            r.le(f"{nm}-increasing-in-{ax}", x[i], x[i + 1], scale, f"{nm} price must not decrease with {ax}")
    if axis == "spot" and S[0] < S[1] < S[2]:
        lam = (S[2] - S[1]) / (S[2] - S[0])  # S2 = lam*S1 + (1-lam)*S3 for the points actually used
        for key in ("C", "L"):
            nm = names[key][0]
            x = pr[key]
            r.le(f"{nm}-convex-in-spot", x[1], lam * x[0] + (1 - lam) * x[2], sc, f"{nm} price convex in spot (weight {lam:.3f})")
    ctx.cls("axis:" + axis, "max:" + ("<K" if m0 < 0 else ("==K" if m0 == 0 else ">K")))
    ctx.nontrivial(r.strict)


# --------------------------------------------------------------------------------------------
# C. running maximum: monotone, 1-Lipschitz, continuity across the strike
# --------------------------------------------------------------------------------------------
@st.composite
def runmax_case(draw):
    kind = draw(st.sampled_from(["pair", "straddle", "straddle", "touch"]))
    K, t, v = draw(k_elem), draw(t_elem), draw(v_elem)
    if kind == "pair":
        s = draw(st.one_of(s_elem, s_below))
        m1 = draw(running_max(s))
        m2 = m1 + draw(gap_elem)
        return {"kind": kind, "K": K, "t": t, "v": v, "s": s, "m": [m1, m2]}
    d = draw(st.one_of(_tiny(-12, -1), _tiny(-6, -1)))  # the step towards / across the strike
    if kind == "straddle":
        s = min(draw(s_below), -d)
        return {"kind": kind, "K": K, "t": t, "v": v, "s": s, "m": [-d, 0.0, d], "d": d}
    # touch: spot K e^-d just below the strike, running max anywhere in [spot, strike)
    frac = draw(st.one_of(st.just(0.0), fl(0.0, 0.999)))
    return {"kind": kind, "K": K, "t": t, "v": v, "s": -d, "m": [min(-d * (1.0 - frac), -5e-324)], "d": d}


def check_runmax(case, ctx):
    K, kind, s0, ms = case["K"], case["kind"], case["s"], case["m"]
    n = len(ms)
    pr = prices(ctx, [s0] * n, ms, [case["t"]] * n, [case["v"]] * n, K)
    if pr is None:
        return
    M = [K * math.exp(x) for x in ms]
    sc = max(K, max(M))
    r = Rel(ctx, {k: case[k] for k in ("K", "s", "m", "t", "v")})
    L, AB = pr["L"], pr["AB"]
    if kind in ("pair", "straddle"):
        lab = "lookback-in-running-max" if kind == "pair" else "continuity-lookback-at-strike"
        for i in range(n - 1):
            r.le(lab, L[i], L[i + 1], sc, "lookback must not decrease with the running max")
            r.le(lab, L[i + 1] - L[i], M[i + 1] - M[i], sc, "lookback moves by at most the move of the running max")
    if kind == "straddle":
        # the barrier was reached exactly at / above the strike, not below it
        r.eq("american-binary-hit", AB[1], 1.0, 1.0, "American binary = 1 at M_run = K", True)
        r.eq("american-binary-hit", AB[2], 1.0, 1.0, "American binary = 1 above M_run = K", True)
    if kind == "touch":
        d = case["d"]
        w = case["v"] * math.sqrt(case["t"])
        bound = d * (2.0 / (w * math.sqrt(2 * math.pi)) + 1.0) if w > 0 else float("inf")
        r.le("continuity-american-binary-at-strike", 1.0 - AB[0], min(bound, 1.0), 1.0,
             f"1 - American binary <= d*(2/(v sqrt(2 pi t)) + 1) = {bound:.3e} for spot = K e^-d, d = {d:.1e}")
        ctx.cls("touch:" + ("bound<0.5" if bound < 0.5 else "bound>=0.5"))
    ctx.cls("kind:" + kind)
    ctx.nontrivial(r.strict)



# --------------------------------------------------------------------------------------------
# D. the same structure through the pricing modules bound to a simulated derivative
# --------------------------------------------------------------------------------------------
@st.composite
def module_case(draw):
    return {"K": draw(st.sampled_from([1.0, 1.0, 0.9, 1.1, 1.25])), "sigma": draw(st.sampled_from([0.2, 0.4, 0.1])),
            "steps": draw(st.integers(2, 8)), "n_paths": draw(st.integers(1, 4)), "seed": draw(st.integers(0, 2 ** 31 - 1)),
            "dt": draw(st.sampled_from([1 / 250, 1 / 52, 1 / 12])), "lift": draw(st.sampled_from([0.0, 0.0, 0.0625, 0.5])),
            "given": draw(st.sampled_from(["none", "max", "max", "vol", "ttm"]))}


def check_modules(case, ctx):
    """Relations between the prices quoted by modules built from derivatives on ONE simulated underlier; the caller may supply the
    running maximum (a barrier already reached before the simulated window), the volatility or the time to maturity."""
    import pfhedge.instruments as I
    from pfhedge.nn import BlackScholes

    K = case["K"]
    ul = I.BrownianStock(sigma=case["sigma"], dt=case["dt"], dtype=DT)
    M = case["steps"] * case["dt"]
    ders = {"C": I.EuropeanOption(ul, strike=K, maturity=M), "P": I.EuropeanOption(ul, call=False, strike=K, maturity=M),
            "BC": I.EuropeanBinaryOption(ul, strike=K, maturity=M), "BP": I.EuropeanBinaryOption(ul, call=False, strike=K, maturity=M),
            "AB": I.AmericanBinaryOption(ul, strike=K, maturity=M), "L": I.LookbackOption(ul, strike=K, maturity=M)}
    torch.manual_seed(case["seed"])
    with ctx.sut("C09/module/simulate"):
        ders["C"].simulate(n_paths=case["n_paths"])
    spot = ul.spot[:, :-1]  # open domain: time to maturity > 0
    logm = (spot / K).log()
    run = ders["L"].max_log_moneyness()[:, :-1]
    kw, kw_max = {}, {}
    if case["given"] == "vol":
        kw["volatility"] = torch.full_like(spot, 0.3)
    elif case["given"] == "ttm":
        kw["time_to_maturity"] = ders["C"].time_to_maturity()[:, :-1] + 0.25
    elif case["given"] == "max":
        # the barrier was reached before the window: every running maximum is at or above the strike
        run = torch.maximum(run, torch.zeros_like(run)) + case["lift"]
        kw_max["max_log_moneyness"] = run
    pr = {}
    with ctx.sut("C09/module/price"):
        for k, d in ders.items():
            mod = BlackScholes(d)
            extra = dict(kw)
            if k in ("AB", "L"):
                extra.update(kw_max)
            full = mod.price(**extra) if not extra else mod.price(**{a: _pad(x) for a, x in extra.items()})
            pr[k] = full[:, :-1]
    if not ctx.check(all(bool(torch.isfinite(x).all()) for x in pr.values()), "C09/finite", "non-finite module price inside the open domain"):
        return
    sc = torch.maximum(spot, K * run.exp()).clamp(min=K)
    tol = REL * sc
    where = {"K": K, "given": case["given"]}

    def holds(name, cond, what):
        ctx.check(bool(cond.all()), "C09/module/" + name, what + f" (modules bound to one simulated underlier, {where})")

    holds("put-call-parity", ((pr["C"] - pr["P"]) - (spot - K)).abs() <= tol, "call - put != spot - strike")
    holds("binary-sum", (pr["BC"] + pr["BP"] - 1.0).abs() <= REL, "binary call + binary put != 1")
    holds("call-bounds", (pr["C"] >= (spot - K).clamp(min=0) - tol) & (pr["C"] <= spot + tol), "call outside [intrinsic, spot]")
    holds("lookback-vs-call", pr["L"] >= pr["C"] - tol, "lookback call below the European call")
    holds("lookback-locked-in", pr["L"] >= (K * run.exp() - K).clamp(min=0) - tol, "lookback call below its locked-in payoff")
    holds("american-vs-european-binary", pr["AB"] >= pr["BC"] - REL, "American binary below the European binary")
    hit = run >= 0
    holds("american-binary-hit", (pr["AB"][hit] - 1.0).abs() <= REL, "American binary != 1 although the running maximum has reached the strike")
    ctx.nontrivial(bool(hit.any()) and bool((logm[hit] < 0).any()))
    ctx.cls("given:" + case["given"], "hit:" + str(bool(hit.any())))


def _pad(x):
    """Caller-supplied arguments cover the whole grid: repeat the last column for the maturity date."""
    return torch.cat([x, x[:, -1:]], dim=1)


from . import _batch  # noqa: E402


def _boundary(name, point, dtype):
    return point["t"] == 0 or point["v"] == 0  # elements at the boundary only ride along (they are C18's subject)


SUBS = [
    Sub("pointwise", check_point,
        rule="1..3 points per case on the C07 domain (s in [-1,1] incl. 0 / +-tiny, t in (0,5], v in (0,2] incl. log-uniform tiny "
             "values, K in (0.1,10], running max equal to / above the spot, exactly at the strike, or below the strike): parity, "
             "binary sum, call bounds, binaries in [0,1], lookback >= call and >= (M_run-K)+, American >= European binary, "
             "American binary = 1 when M_run >= K. Non-trivial: some relation is strict (sides differ by more than the slack; for "
             "parity / binary sum: both legs above the slack; for the hit rule: spot below the strike); strict counts per relation in classes.",
        strategy=lambda tier: point_case(), examples={"quick": 6000, "thorough": 150000}),
    Sub("pairs", check_pair,
        rule="constructed triples S1 < S2 = lam*S1+(1-lam)*S3 < S3 (gap 1e-8..2 in log-moneyness, lam in {.5,.25,.9,.1}) at a fixed "
             "running max >= S3, and pairs v1 < v2, t1 < t2 (ratio 1+1e-8 .. 10): European call, lookback and American binary must "
             "not decrease along each axis; call and lookback convex in spot. Non-trivial: some inequality strict by more than the slack.",
        strategy=lambda tier: pair_case(), examples={"quick": 8000, "thorough": 200000}),
    Sub("running_max", check_runmax,
        rule="pairs m1 < m2 of running maxima at a fixed point (lookback non-decreasing and 1-Lipschitz in M_run), straddles "
             "(-d, 0, +d) around the strike with d = 1e-12..1e-1 (continuity of the lookback; American binary exactly 1 at and "
             "above the strike), and touch cases spot = K e^-d with M_run in [spot, K) (American binary -> 1 at the rate of d). "
             "Non-trivial: some relation strict.",
        strategy=lambda tier: runmax_case(), examples={"quick": 6000, "thorough": 150000}),
    Sub("modules", check_modules,
        rule="pricing modules (BlackScholes(derivative)) of the six contracts on ONE simulated Brownian underlier (2..8 steps, 1..4 paths, "
             "3 strikes), priced from the derivative's state or with one argument supplied by the caller (volatility, time to maturity, or a "
             "running maximum lifted to / above the strike): parity, binary sum, call bounds, lookback >= call and >= locked-in payoff, "
             "American >= European binary and = 1 where the running maximum has reached the strike. Non-trivial: a hit barrier with the spot below the strike.",
        strategy=lambda tier: module_case(), examples={"quick": 800, "thorough": 8000}),
    Sub("price_surface", lambda case, ctx: _batch.check_batch(case, ctx, _batch.PRICES, "C09", skip=_boundary),
        rule="price surfaces: 2..7 points per call, points of the open domain next to points at maturity / zero volatility (as on the time grid "
             "of a simulated path), exact at-the-money points, hit and not-hit barriers: the price at every OPEN-DOMAIN element must be the "
             "price of that element alone, so the relations above hold on surfaces as they do point by point. Non-trivial: mixed batch.",
        strategy=lambda tier: _batch.batch_case(boundary=True), examples={"quick": 1500, "thorough": 15000}),
]

META = {
    "technique": "property-based testing: Hypothesis-constructed points, pairs and triples vs metamorphic no-arbitrage relations "
                 "(each relation a consequence of the payoff definitions, none of the closed forms)",
    "level_text": "Exploration: ~2*10^4 (quick) / 5*10^5 (thorough) generated points, pairs and midpoint triples per run over the "
                  "open parameter domain incl. tiny volatilities / maturities and running maxima at, just below and just above the "
                  "strike; 25 labelled relations, strict instances counted per relation.",
}
