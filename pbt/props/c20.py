"""C20 - Clamps, the Whalley-Wilmott band and small helpers follow their formulas."""
import math
from fractions import Fraction as Fr

import mpmath as mp
import numpy as np
import torch
from hypothesis import strategies as st

from ..core import Sub
from ..gens import DT_CHOICES, DTYPES, EPS, nested
from ..gens import fl as _fl
from ..oracles import payoffs as PO
from ..oracles import wwmp as W
from ..oracles.exact import round_to

PROPERTY_ID = "C20"
ASSUMPTIONS = [
    "all tensor elements and Python-scalar arguments are representable in the working dtype (float32 cases draw float32 "
    "values), so no representation step enters a comparison. Python scalars that pfhedge converts through the global default "
    "dtype (float bounds of leaky_clamp / clamp 'mean' via torch.as_tensor; the strike of the autograd-based American-binary "
    "and lookback Black-Scholes modules via autogreek.parse_spot) are drawn float32-representable; an SVI call whose input "
    "and m are both Python floats is compared at float32 resolution (DESIGN 2.1 convention)",
    "normal floats only (no subnormals): flush-to-zero of vectorised kernels is not pfhedge behaviour",
    "clamp (slope 0, both modes; torch.clamp for 'max'): bitwise the input / the bound / the upper bound; mean of inverted "
    "bounds to one rounding of the sum",
    "leaky clamp: 4*eps*(|x|+|min|+|max|) (the documented formula evaluated in floats; with slope 1 the second branch "
    "re-adds and subtracts the other bound)",
    "in 'max' mode a number bound mixed with a tensor bound and a call without bounds must work like in 'mean' mode "
    "(torch.clamp's own rejections were repaired in /repo)",
    "Whalley-Wilmott: delta and gamma = numerical derivatives (mpmath.diff, 50 digits) of zero-rate Black-Scholes prices "
    "written from their definitions for European, European binary (call/put) and American binary (call); for the lookback "
    "option the library's own delta and gamma are taken and only the band formula and the clip are checked (relation); "
    "tolerance = 2*(conditioning bound of delta + of w + eps*(|delta|+w)), see oracles/wwmp.py; t>0, v>0 (t=0/v=0 is C18/K3)",
    "helpers: SVI 8*eps*(|a|+|b|(|rho (k-m)|+sqrt((k-m)^2+s^2))), bilerp 8*eps*(1+|w1|)(1+|w2|)*sum|inputs|, Box-Muller "
    "8*eps*radius*(1+2 pi u2), realised variance with the forward bound of oracles/payoffs.py",
]

SLOPES = [0.0, 0.01, 0.5, 1.0]
TINY = {"float32": 2.0 ** -126, "float64": 2.0 ** -1022}  # smallest normal


def fl(lo, hi, dtype="float64"):
    """Normal floats only: subnormal handling (flush-to-zero in vectorised kernels) is the platform's, not pfhedge's."""
    return _fl(lo, hi, dtype, allow_subnormal=False)


# ------------------------------------------------------------------------------------ clamps
@st.composite
def clamp_case(draw):
    dtype = draw(st.sampled_from(["float32", "float64"]))
    # float32-representable values also in float64 cases: a Python-float bound reaches leaky_clamp through
    # torch.as_tensor (global default dtype), so only such scalars are compared at full resolution (DESIGN 2.1)
    el = st.one_of(st.integers(-4, 4).map(lambda i: i / 2.0), fl(-2.0, 2.0, dtype), fl(-1e3, 1e3, dtype),
                   fl(-2.0, 2.0, "float32"), st.sampled_from([0.0, 1.0, -1.0, 0.25]))
    F32 = lambda v: round_to(v, dtype)  # (number bounds are converted in the dtype of the input since the /repo repair)
    pool = draw(st.lists(el, min_size=2, max_size=5))
    pick = st.one_of(st.sampled_from(pool), st.sampled_from(pool), el)
    shape = draw(st.sampled_from([[], [3], [1], [4], [2, 3], [3, 1], [2, 2]]))
    x = draw(nested(shape, pick))

    def bound(allow_none=True):
        kinds = ["float", "tensor0", "same", "bcast"] + (["none"] if allow_none else [])
        k = draw(st.sampled_from(kinds))
        if k == "none":
            return None
        if k == "float":
            return {"kind": "float", "data": F32(draw(pick))}
        if k == "tensor0":
            return {"kind": "tensor", "data": draw(pick)}
        if k == "same" or not shape:
            return {"kind": "tensor", "data": draw(nested(shape, pick))}
        # broadcastable to the input's shape
        opts = [[1]] + ([[shape[-1]]] if len(shape) == 2 else []) + ([[shape[0], 1], [1, shape[1]]] if len(shape) == 2 else [])
        return {"kind": "tensor", "data": draw(nested(draw(st.sampled_from(opts)), pick))}

    sided = draw(st.sampled_from(["both"] * 7 + ["min", "min", "max", "max", "none"]))
    lo = bound(False) if sided in ("both", "min") else None
    hi = bound(False) if sided in ("both", "max") else None
    if sided == "both" and draw(st.integers(0, 2)) > 0:
        # make inverted / tied bounds frequent: derive max from min elementwise
        kind = draw(st.sampled_from(["tie", "below", "below"]))
        if kind == "tie":
            hi = {"kind": lo["kind"], "data": lo["data"]}
        else:
            off = draw(st.sampled_from([0.5, 1.0, 2.0 ** -10]))
            rd = dtype
            hi = {"kind": lo["kind"], "data": _map(lo["data"], lambda v: round_to(v - off, rd))}
    return {"dtype": dtype, "x": x, "min": lo, "max": hi,
            "leaky": draw(st.booleans()), "via": draw(st.sampled_from(["function", "module"])),
            "slope": draw(st.sampled_from(SLOPES)), "inverted_output": draw(st.sampled_from(["mean", "max"])),
            "defaults": draw(st.integers(0, 4)) == 0, "positional": draw(st.booleans())}


def _map(data, f):
    return [_map(d, f) for d in data] if isinstance(data, list) else f(data)


def _bound_arg(b, dtype):
    if b is None:
        return None
    if b["kind"] == "float":
        return b["data"]
    return torch.tensor(b["data"], dtype=DTYPES[dtype])


def _bound_np(b, shape):
    if b is None:
        return None
    return np.broadcast_to(np.asarray(b["data"], dtype=np.float64), shape)


def check_clamp(case, ctx):
    from pfhedge.nn import Clamp, LeakyClamp
    from pfhedge.nn.functional import clamp, leaky_clamp

    dtype, eps = case["dtype"], EPS[case["dtype"]]
    leaky, via, mode = case["leaky"], case["via"], case["inverted_output"]
    slope = case["slope"] if leaky else 0.0
    defaults = case["defaults"]
    if defaults:
        mode, slope = "mean", (0.01 if leaky else 0.0)
    x = torch.tensor(case["x"], dtype=DTYPES[dtype])
    lo, hi = _bound_arg(case["min"], dtype), _bound_arg(case["max"], dtype)
    x0 = x.clone()
    name = ("LeakyClamp" if leaky else "Clamp") if via == "module" else ("leaky_clamp" if leaky else "clamp")
    label = "C20/" + name

    # (torch.clamp's own rejections of mixed number/tensor bounds and of a call without bounds in 'max' mode were a
    # defect of clamp/Clamp - repaired in /repo - so every configuration must return a value now)
    if not leaky and mode == "max":
        kinds = {None if b is None else b["kind"] for b in (case["min"], case["max"])}
        if kinds == {"float", "tensor"}:
            ctx.cls("max-mode:mixed-number-tensor-bounds")
        if kinds == {None}:
            ctx.cls("max-mode:no-bounds")

    with ctx.sut(label):
        if via == "module":
            if defaults:
                mod = LeakyClamp() if leaky else Clamp()
            elif leaky:
                mod = LeakyClamp(slope, mode) if case["positional"] else LeakyClamp(clamped_slope=slope, inverted_output=mode)
            else:
                mod = Clamp(mode) if case["positional"] else Clamp(inverted_output=mode)
            out = mod(x, lo, hi) if case["positional"] else mod(x, min=lo, max=hi)
        else:
            if defaults:
                out = (leaky_clamp if leaky else clamp)(x, lo, hi)
            elif leaky:
                out = leaky_clamp(x, lo, hi, slope, mode) if case["positional"] else \
                    leaky_clamp(x, min=lo, max=hi, clamped_slope=slope, inverted_output=mode)
            else:
                out = clamp(x, lo, hi, mode) if case["positional"] else clamp(x, min=lo, max=hi, inverted_output=mode)
    shape = tuple(x.shape)
    if not ctx.check(tuple(out.shape) == shape, label + "/shape", f"output shape {tuple(out.shape)} != input shape {shape}"):
        return
    xs = np.asarray(case["x"], dtype=np.float64).reshape(-1)
    los = None if lo is None else _bound_np(case["min"], shape).reshape(-1)
    his = None if hi is None else _bound_np(case["max"], shape).reshape(-1)
    got = out.to(torch.float64).reshape(-1).tolist()
    classes = set()
    done = set()
    for i, xv in enumerate(xs.tolist()):
        l = None if los is None else float(los[i])
        h = None if his is None else float(his[i])
        if l is not None and h is not None and l > h:
            region = "inverted"
            want = (Fr(l) + Fr(h)) / 2 if mode == "mean" else Fr(h)
            tol = Fr(eps) * max(abs(Fr(l)), abs(Fr(h))) if mode == "mean" else Fr(0)
        elif l is not None and xv < l:
            region = "outside"
            want = Fr(l) + Fr(slope) * (Fr(xv) - Fr(l))
            tol = Fr(0)
        elif h is not None and xv > h:
            region = "outside"
            want = Fr(h) + Fr(slope) * (Fr(xv) - Fr(h))
            tol = Fr(0)
        else:
            region = "inside"
            want = Fr(xv)
            tol = Fr(0)
            if l is not None and (xv == l or xv == h):
                classes.add("tie:x=bound")
        if region != "inverted" and slope != 0.0:
            tol = 4 * Fr(eps) * (abs(Fr(xv)) + abs(Fr(l or 0.0)) + abs(Fr(h or 0.0))) + 4 * Fr(W.DENORM_MIN[dtype])
        if l is not None and l == h:
            classes.add("tie:min=max")
        classes.add("region:" + region)
        g = got[i]
        if (not math.isfinite(g) or abs(Fr(g) - want) > tol) and region not in done:
            done.add(region)
            ctx.fail(label + "/" + region,
                     f"element {i}: x={xv!r}, min={l!r}, max={h!r}, slope={slope}, inverted_output={mode!r}: got {g!r}, "
                     f"documented {float(want)!r}", x=xv, min=l, max=h, got=g)
    ctx.check(torch.equal(x, x0), label + "/mutates", "clamp modified its input")
    ctx.nontrivial("region:inverted" in classes)
    ctx.cls("fn:" + name, "dtype:" + dtype, "mode:" + mode, "slope:%g" % slope, *sorted(classes))
    ctx.cls("bounds:" + "/".join("none" if b is None else b["kind"] + ("" if b["kind"] == "float" else str(np.asarray(b["data"]).ndim))
                                 for b in (case["min"], case["max"])))
    if defaults:
        ctx.cls("defaults")


# ------------------------------------------------------------------------------------ Whalley-Wilmott
WW_KINDS = {"european": "EuropeanOption", "european_binary": "EuropeanBinaryOption",
            "american_binary": "AmericanBinaryOption", "lookback": "LookbackOption"}


@st.composite
def ww_case(draw):
    dtype = draw(st.sampled_from(["float32", "float64", "float64"]))
    kind = draw(st.sampled_from(["european", "european", "european", "european_binary", "american_binary", "lookback"]))
    call = draw(st.booleans()) if kind in ("european", "european_binary") else True
    R = lambda v: round_to(v, dtype)
    rows = []
    for _ in range(draw(st.integers(1, 4))):
        s = draw(st.one_of(fl(-0.5, 0.5, dtype), st.sampled_from([0.0, 0.01, -0.01, 0.1, -0.1]).map(R)))
        t = draw(st.one_of(fl(0.01, 2.0, dtype), st.sampled_from([1.0, 0.1, 20 / 250, 1 / 250 * 3]).map(R)))
        v = draw(st.one_of(fl(0.05, 1.0, dtype), st.sampled_from([0.2, 0.2, 0.5]).map(R)))
        row = {"s": s, "t": t, "v": v}
        if kind in ("american_binary", "lookback"):
            up = draw(st.one_of(st.just(0.0), fl(0.0, 0.3, dtype), fl(0.0, 0.01, dtype)))
            m = R(s + up)
            if draw(st.integers(0, 5)) == 0:
                m = max(s, 0.0)  # running max exactly at the strike
            row["m"] = max(m, s)
        if draw(st.integers(0, 3)) == 0:
            row["prev"] = {"mode": "abs", "x": draw(st.one_of(fl(-1.0, 2.0, dtype), st.sampled_from([0.0, 0.5, 1.0])))}
        else:
            row["prev"] = {"mode": "rel", "u": draw(st.one_of(fl(-2.5, 2.5), st.sampled_from([0.0, 0.5, -0.5, 1.5, -1.5, 3.0, -3.0])))}
        rows.append(row)
    strike = draw(st.one_of(st.sampled_from([1.0, 0.5, 2.0, 1.1, 100.0, 0.9]), fl(0.1, 10.0)))
    if kind in ("american_binary", "lookback"):
        # these modules differentiate their price by autograd, and autogreek.parse_spot turns the Python-float strike
        # into a tensor of the global default dtype: only float32-representable strikes are compared at full
        # resolution (DESIGN 2.1)
        strike = round_to(strike, "float32")
    return {"dtype": dtype, "kind": kind, "call": call, "strike": strike,
            "cost": draw(st.one_of(st.sampled_from([0.0, 1e-5, 1e-4, 1e-3, 1e-2, 2.0 ** -10]), fl(0.0, 0.05))),
            "a": draw(st.one_of(st.sampled_from([1.0, 0.1, 0.5, 2.0, 10.0]), fl(0.05, 20.0))),
            "a_default": draw(st.integers(0, 5)) == 0,
            "rows": rows, "rank3": draw(st.booleans())}


def check_ww(case, ctx):
    import pfhedge.instruments as I
    from pfhedge.nn import BlackScholes, WhalleyWilmott

    dtype, eps = case["dtype"], EPS[case["dtype"]]
    kind, call, K, c = case["kind"], case["call"], case["strike"], case["cost"]
    a = 1.0 if case["a_default"] else case["a"]
    rows = case["rows"]
    with ctx.sut("C20/ww/build"):
        late_cost = len(rows) % 2 == 1  # the cost rate of the instrument is (re)set after the strategy object was built
        ul = I.BrownianStock(cost=(0.0 if c else 1e-3) if late_cost else c, dtype=DTYPES[dtype])
        cls = getattr(I, WW_KINDS[kind])
        deriv = cls(ul, call=call, strike=K) if kind in ("european", "european_binary") else cls(ul, strike=K)
        mod = WhalleyWilmott(deriv) if case["a_default"] else WhalleyWilmott(deriv, a=a)
        if late_cost:
            ul.cost = c
            ctx.cls("ww:cost-set-after-construction")
        names = mod.inputs()
    expect_names = ["log_moneyness"] + (["max_log_moneyness"] if kind in ("american_binary", "lookback") else []) + \
        ["time_to_maturity", "volatility", "prev_hedge"]
    if not ctx.check(names == expect_names, "C20/ww/inputs", f"inputs() = {names}"):
        return
    key = {"log_moneyness": "s", "max_log_moneyness": "m", "time_to_maturity": "t", "volatility": "v"}
    feats = torch.tensor([[r[key[n]] for n in names[:-1]] for r in rows], dtype=DTYPES[dtype])
    # library Greeks are needed (a) for the lookback relation, (b) for the zero-cost relation "equals the BS delta hedge"
    with ctx.sut("C20/ww/bs"):
        bs = BlackScholes(deriv)
        bs_delta = bs(feats)
        bs_gamma = bs.gamma(*(feats[..., [i]] for i in range(feats.size(-1)))) if kind == "lookback" else None
    bands, prevs = [], []
    for i, r in enumerate(rows):
        if kind == "lookback":
            b = W.band_from_library_greeks(K, c, a, r["s"], bs_delta[i, 0].item(), bs_gamma[i, 0].item(), eps, dtype)
        else:
            b = W.band(kind, call, K, c, a, r["s"], r["t"], r["v"], r.get("m"), eps, dtype)
        p = r["prev"]
        # relative placement: delta + u*w; with a degenerate band (zero cost, barrier already hit) u is an offset in units of 1/4
        unit = b["w"] if b["w"] > 0 else mp.mpf("0.25")
        prev = p["x"] if p["mode"] == "abs" else round_to(float(b["delta"] + mp.mpf(p["u"]) * unit), dtype)
        bands.append(b)
        prevs.append(prev)
    if kind == "lookback" and not all(math.isfinite(float(b["delta"])) and math.isfinite(float(b["gamma"])) for b in bands):
        ctx.exclude("lookback-greeks-non-finite")  # totality of the autograd Greeks is C18 / K3
        return
    x = torch.cat([feats, torch.tensor(prevs, dtype=DTYPES[dtype]).unsqueeze(-1)], dim=-1)
    if case["rank3"]:
        x = x.unsqueeze(1)
    x0 = x.clone()
    with ctx.sut("C20/ww/forward"):
        out = mod(x)
    want_shape = tuple(x.shape[:-1]) + (1,)
    if not ctx.check(tuple(out.shape) == want_shape, "C20/ww/shape", f"output shape {tuple(out.shape)} != {want_shape}"):
        return
    got = out.reshape(-1).tolist()
    outside = False
    for i, (r, b, prev) in enumerate(zip(rows, bands, prevs)):
        ok, region, want, tol = W.clip_verdict(got[i], prev, b, eps)
        outside = outside or region in ("below", "above")
        ctx.cls("ww-region:" + region)
        detail = dict(row=r, prev=prev, got=got[i], want=float(want), delta=float(b["delta"]), gamma=float(b["gamma"]),
                      width=float(b["w"]), tol=float(tol))
        if c == 0.0:
            lab = "C20/ww/zero-cost-is-bs-delta"
        elif region == "inside":
            lab = "C20/ww/keeps-prev-inside-band"
        else:
            lab = "C20/ww/moves-to-band-edge"
        if not ok:
            ctx.fail(lab, f"row {i} ({kind}, call={call}, K={K}, c={c}, a={a}): prev={prev!r} band=[{float(b['delta'] - b['w'])!r}, "
                          f"{float(b['delta'] + b['w'])!r}] got {got[i]!r}, want {float(want)!r} (tol {float(tol):.3e})", **detail)
            break
        if c == 0.0:
            d = bs_delta[i, 0].item()
            if not ctx.check(got[i] == d, "C20/ww/zero-cost-is-bs-module", f"row {i}: zero cost but output {got[i]!r} != BlackScholes delta {d!r}", **detail):
                break
    ctx.check(torch.equal(x, x0), "C20/ww/mutates", "forward modified its input")
    ctx.nontrivial(outside or a != 1.0)
    ctx.cls("kind:" + kind, "dtype:" + dtype, "call:" + str(call), "a:" + ("1" if a == 1.0 else "!=1"),
            "K:" + ("1" if K == 1.0 else "!=1"), "cost:" + ("0" if c == 0.0 else ">0"), "rank:%d" % x.dim(),
            "oracle:" + ("relation(library greeks)" if kind == "lookback" else "mpmath"))


# ------------------------------------------------------------------------------------ SVI
def _param(draw, dtype, el, shape):
    k = draw(st.sampled_from(["float", "float", "tensor0", "tensor"]))
    if k == "float":
        return {"kind": "float", "data": draw(el)}
    if k == "tensor0" or not shape:
        return {"kind": "tensor", "data": draw(el)}
    return {"kind": "tensor", "data": draw(nested([shape[-1]], el))}


@st.composite
def svi_case(draw):
    dtype = draw(st.sampled_from(["float32", "float64"]))
    R = lambda v: round_to(v, dtype)
    shape = draw(st.sampled_from([[], [3], [5], [2, 3]]))
    scalar_input = draw(st.integers(0, 5)) == 0
    k_el = st.one_of(fl(-1.0, 1.0, dtype), st.sampled_from([0.0, 0.1, -0.1, 0.01]).map(R))
    els = {
        "a": st.one_of(fl(-0.1, 0.5, dtype), st.sampled_from([0.03, 0.0]).map(R)),
        "b": st.one_of(fl(0.0, 2.0, dtype), st.sampled_from([0.1, 0.0, 1.0]).map(R)),
        "rho": st.one_of(fl(-1.0, 1.0, dtype), st.sampled_from([0.1, -1.0, 1.0, 0.0, -0.7]).map(R)),
        "m": st.one_of(fl(-1.0, 1.0, dtype), st.sampled_from([0.0, 0.1]).map(R)),
        "sigma": st.one_of(fl(0.0, 2.0, dtype), st.sampled_from([0.1, 0.0, 1.0, 0.5]).map(R)),
    }
    case = {"dtype": dtype, "module": draw(st.booleans()), "positional": draw(st.booleans())}
    if scalar_input:
        case["input"] = {"kind": "float", "data": draw(k_el)}
        shape = []
    else:
        case["input"] = {"kind": "tensor", "data": draw(nested(shape, k_el))}
    for name, el in els.items():
        case[name] = _param(draw, dtype, el, shape)
    return case


def check_svi(case, ctx):
    from pfhedge.nn import SVIVariance
    from pfhedge.nn.functional import svi_variance

    names = ["a", "b", "rho", "m", "sigma"]
    dtype = case["dtype"]
    # k - m of two Python floats becomes a tensor through torch.as_tensor, i.e. in the global default dtype (float32):
    # compared at the coarser resolution (DESIGN 2.1)
    coarse = case["input"]["kind"] == "float" and case["m"]["kind"] == "float"
    eps = max(EPS[dtype], EPS["float32"]) if coarse else EPS[dtype]
    arg = lambda p: p["data"] if p["kind"] == "float" else torch.tensor(p["data"], dtype=DTYPES[dtype])
    k = arg(case["input"])
    ps = [arg(case[n]) for n in names]
    label = "C20/SVIVariance" if case["module"] else "C20/svi_variance"
    with ctx.sut(label):
        if case["module"]:
            m = SVIVariance(*ps) if case["positional"] else SVIVariance(**dict(zip(names, ps)))
            out = m(k)
        else:
            out = svi_variance(k, *ps) if case["positional"] else svi_variance(k, **dict(zip(names, ps)))
    arrs = [np.asarray(case[n]["data"], dtype=np.float64) for n in ["input"] + names]
    full = np.broadcast_shapes(*[a.shape for a in arrs])
    if not ctx.check(tuple(out.shape) == tuple(full), label + "/shape", f"shape {tuple(out.shape)} != {tuple(full)}"):
        return
    flat = [np.broadcast_to(a, full).reshape(-1).tolist() for a in arrs]
    got = out.to(torch.float64).reshape(-1).tolist()
    with mp.workdps(40):
        for i in range(len(got)):
            kv, a, b, rho, m_, sg = (mp.mpf(f[i]) for f in flat)
            km = kv - m_
            root = mp.sqrt(km * km + sg * sg)
            want = a + b * (rho * km + root)
            # + underflow allowance: (k-m)^2 + sigma^2 flushes to zero below sqrt(smallest normal) of the computing dtype
            tol = 8 * eps * (abs(a) + abs(b) * (abs(rho * km) + root)) \
                + (1 + 2 * abs(b)) * mp.sqrt(TINY["float32" if coarse else dtype])
            if got[i] != got[i] or abs(mp.mpf(got[i]) - want) > tol:
                ctx.fail(label + "/value", f"element {i}: k={flat[0][i]!r} a={flat[1][i]!r} b={flat[2][i]!r} rho={flat[3][i]!r} m={flat[4][i]!r} "
                                           f"sigma={flat[5][i]!r}: got {got[i]!r}, formula {float(want)!r}", tol=float(tol))
                break
    ctx.nontrivial(any(s not in (0.0, 1.0) for s in flat[5]) and any(b != 0.0 for b in flat[2]))
    ctx.cls("form:" + ("module" if case["module"] else "function"), "dtype:" + dtype,
            "input:" + case["input"]["kind"], "resolution:" + ("default-dtype" if coarse else "dtype"), "params:" + ("all-float" if all(case[n]["kind"] == "float" for n in names) else "some-tensor"))


# ------------------------------------------------------------------------------------ bilerp
@st.composite
def bilerp_case(draw):
    dtype = draw(st.sampled_from(["float32", "float64"]))
    shape = draw(st.sampled_from([[], [3], [4], [2, 3]]))
    el = st.one_of(st.integers(-3, 3).map(float), fl(-2.0, 2.0, dtype), fl(-1e3, 1e3, dtype))
    inputs = []
    full_at = draw(st.integers(0, 3))
    for i in range(4):
        sh = shape
        if shape and i != full_at and draw(st.integers(0, 3)) == 0:
            sh = draw(st.sampled_from([[1], [shape[-1]]]))
        inputs.append(draw(nested(sh, el)))
    w_el = st.one_of(fl(0.0, 1.0, dtype), fl(0.0, 1.0, dtype), st.sampled_from([0.0, 1.0, 0.5, 0.25]), fl(-1.0, 2.0, dtype))

    def weight():
        k = draw(st.sampled_from(["float", "float", "tensor0", "tensor"]))
        if k == "float":
            return {"kind": "float", "data": draw(w_el)}
        if k == "tensor0" or not shape:
            return {"kind": "tensor", "data": draw(w_el)}
        return {"kind": "tensor", "data": draw(nested(shape, w_el))}

    return {"dtype": dtype, "inputs": inputs, "w1": weight(), "w2": weight(), "positional": draw(st.booleans())}


def check_bilerp(case, ctx):
    from pfhedge.nn.functional import bilerp

    dtype, eps = case["dtype"], EPS[case["dtype"]]
    ts = [torch.tensor(d, dtype=DTYPES[dtype]) for d in case["inputs"]]
    arg = lambda p: p["data"] if p["kind"] == "float" else torch.tensor(p["data"], dtype=DTYPES[dtype])
    w1, w2 = arg(case["w1"]), arg(case["w2"])
    with ctx.sut("C20/bilerp"):
        out = bilerp(*ts, w1, w2) if case["positional"] else \
            bilerp(input1=ts[0], input2=ts[1], input3=ts[2], input4=ts[3], weight1=w1, weight2=w2)
    arrs = [np.asarray(d, dtype=np.float64) for d in case["inputs"]] + \
           [np.asarray(case["w1"]["data"], dtype=np.float64), np.asarray(case["w2"]["data"], dtype=np.float64)]
    full = np.broadcast_shapes(*[a.shape for a in arrs])
    if not ctx.check(tuple(out.shape) == tuple(full), "C20/bilerp/shape", f"shape {tuple(out.shape)} != {tuple(full)}"):
        return
    flat = [np.broadcast_to(a, full).reshape(-1).tolist() for a in arrs]
    got = out.to(torch.float64).reshape(-1).tolist()
    distinct = False
    for i in range(len(got)):
        i1, i2, i3, i4, a, b = (Fr(f[i]) for f in flat)
        want = (1 - a) * (1 - b) * i1 + a * (1 - b) * i2 + (1 - a) * b * i3 + a * b * i4
        tol = 8 * Fr(eps) * (1 + abs(a)) * (1 + abs(b)) * (abs(i1) + abs(i2) + abs(i3) + abs(i4)) + Fr(TINY[dtype])
        distinct = distinct or (a != b and i2 != i3 and a not in (0, 1) and b not in (0, 1))
        if not math.isfinite(got[i]) or abs(Fr(got[i]) - want) > tol:
            ctx.fail("C20/bilerp/value", f"element {i}: inputs {[f[i] for f in flat[:4]]} weights {flat[4][i]!r}, {flat[5][i]!r}: "
                                         f"got {got[i]!r}, formula {float(want)!r}", tol=float(tol))
            break
    ctx.nontrivial(distinct)
    ctx.cls("dtype:" + dtype, "w1:" + case["w1"]["kind"], "w2:" + case["w2"]["kind"],
            "weights:" + ("in[0,1]" if all(0 <= v <= 1 for v in flat[4] + flat[5]) else "extrapolating"))


# ------------------------------------------------------------------------------------ Box-Muller
@st.composite
def box_muller_case(draw):
    dtype = draw(st.sampled_from(["float32", "float64"]))
    R = lambda v: round_to(v, dtype)
    shape = draw(st.sampled_from([[], [3], [6], [2, 3]]))
    u1 = st.one_of(fl(0.0, 1.0, dtype), fl(0.0, 1.0, dtype), st.sampled_from([0.0, 1.0, 0.5, 1e-12, 1e-10, 1e-7, 1e-3]).map(R),
                   fl(0.0, 1e-6, dtype))
    u2 = st.one_of(fl(0.0, 1.0, dtype), st.sampled_from([0.0, 1.0, 0.25, 0.5, 0.75, 0.125]))
    return {"dtype": dtype, "u1": draw(nested(shape, u1)), "u2": draw(nested(shape, u2)),
            "epsilon": draw(st.sampled_from([None, None, 1e-10, 1e-6, 1e-3, 0.25]))}


def check_box_muller(case, ctx):
    from pfhedge.nn.functional import box_muller

    dtype, eps = case["dtype"], EPS[case["dtype"]]
    a = torch.tensor(case["u1"], dtype=DTYPES[dtype])
    b = torch.tensor(case["u2"], dtype=DTYPES[dtype])
    e = case["epsilon"]
    with ctx.sut("C20/box_muller"):
        z1, z2 = box_muller(a, b) if e is None else box_muller(a, b, epsilon=e)
    if not ctx.check(tuple(z1.shape) == tuple(a.shape) and tuple(z2.shape) == tuple(a.shape), "C20/box_muller/shape",
                     f"shapes {tuple(z1.shape)}, {tuple(z2.shape)} != {tuple(a.shape)}"):
        return
    e_used = round_to(1e-10 if e is None else e, dtype)  # clamp(min=epsilon) converts the scalar to the dtype
    u1 = np.asarray(case["u1"], dtype=np.float64).reshape(-1).tolist()
    u2 = np.asarray(case["u2"], dtype=np.float64).reshape(-1).tolist()
    g1, g2 = z1.to(torch.float64).reshape(-1).tolist(), z2.to(torch.float64).reshape(-1).tolist()
    clamped = False
    with mp.workdps(40):
        for i in range(len(u1)):
            u = max(mp.mpf(u1[i]), mp.mpf(e_used))
            clamped = clamped or u1[i] < e_used
            r = mp.sqrt(-2 * mp.log(u))
            ang = 2 * mp.pi * mp.mpf(u2[i])
            tol = 8 * eps * r * (1 + abs(ang)) + TINY[dtype]
            for lab, g, w in (("cos", g1[i], r * mp.cos(ang)), ("sin", g2[i], r * mp.sin(ang))):
                if g != g or abs(mp.mpf(g) - w) > tol:
                    ctx.fail("C20/box_muller/" + lab, f"element {i}: u1={u1[i]!r} u2={u2[i]!r} epsilon={e!r}: got {g!r}, formula {float(w)!r}",
                             tol=float(tol))
                    break
            else:
                continue
            break
    ctx.nontrivial(any(v not in (0.0, 0.5, 1.0) for v in u2) and any(v != 1.0 for v in u1))
    ctx.cls("dtype:" + dtype, "epsilon:" + ("default" if e is None else "%g" % e), "clamped:" + str(clamped))


# ------------------------------------------------------------------------------------ realised variance / volatility
@st.composite
def realized_case(draw):
    dtype = draw(st.sampled_from(["float32", "float64"]))
    N, T = draw(st.integers(1, 4)), draw(st.integers(2, 8))
    scale = draw(st.sampled_from([1.0, 1.0, 100.0, 0.01]))
    el = st.one_of(fl(0.5, 2.0, dtype), fl(0.9, 1.1, dtype), st.sampled_from([1.0, 1.0, 1.25, 0.75]))
    spot = [[round_to(scale * draw(el), dtype) for _ in range(T)] for _ in range(N)]
    return {"dtype": dtype, "spot": spot, "dt": draw(st.sampled_from(DT_CHOICES + [1.0])),
            "dt_kind": draw(st.sampled_from(["float", "tensor0", "positional"])), "rank1": draw(st.integers(0, 4)) == 0}


def check_realized(case, ctx):
    from pfhedge.nn.functional import realized_variance, realized_volatility

    dtype, eps = case["dtype"], EPS[case["dtype"]]
    spot = case["spot"][:1] if case["rank1"] else case["spot"]
    x = torch.tensor(spot[0] if case["rank1"] else spot, dtype=DTYPES[dtype])
    dt = case["dt"]
    with ctx.sut("C20/realized"):
        if case["dt_kind"] == "tensor0":
            dt_t = torch.tensor(dt, dtype=DTYPES[dtype])
            rv, rvol = realized_variance(x, dt=dt_t), realized_volatility(x, dt=dt_t)
            dt = round_to(dt, dtype)
        elif case["dt_kind"] == "float":
            rv, rvol = realized_variance(x, dt=dt), realized_volatility(x, dt=dt)
        else:
            rv, rvol = realized_variance(x, dt), realized_volatility(x, dt)
    shape = tuple(x.shape[:-1])
    if not ctx.check(tuple(rv.shape) == shape and tuple(rvol.shape) == shape, "C20/realized/shape",
                     f"shapes {tuple(rv.shape)}, {tuple(rvol.shape)} != {shape}"):
        return
    a, b = rv.to(torch.float64).reshape(-1).tolist(), rvol.to(torch.float64).reshape(-1).tolist()
    with mp.workdps(PO.MP_DPS):
        for n, p in enumerate(spot):
            val, bound = PO.realized_variance_mp(p, dt, eps, dt_rel_err=eps)
            if a[n] != a[n] or abs(mp.mpf(a[n]) - val) > bound:
                ctx.fail("C20/realized_variance/value", f"path {n}: got {a[n]!r}, definition {float(val)!r} (bound {float(bound):.3e})", path=n)
                break
            lo, hi = mp.sqrt(max(val - bound, 0)), mp.sqrt(val + bound)
            if b[n] != b[n] or not (lo * (1 - 2 * eps) <= mp.mpf(b[n]) <= hi * (1 + 2 * eps)):
                ctx.fail("C20/realized_volatility/value", f"path {n}: got {b[n]!r}, sqrt(definition) {float(mp.sqrt(val))!r}", path=n)
                break
    ctx.nontrivial(any(len(set(p)) > 1 for p in spot) and dt != 1.0)
    ctx.cls("dtype:" + dtype, "dt:" + case["dt_kind"], "rank:%d" % x.dim())


SUBS = [
    Sub("clamp", check_clamp,
        rule="Hypothesis draws an input (0-d, 1-d, 2-d) and bounds (None / Python float / 0-d tensor / same-shape tensor / "
             "broadcastable tensor) from a small pool of shared values (ties x=min, min=max frequent; max derived from min "
             "below it for inverted bounds), slope in {0,.01,.5,1}, inverted_output in {mean,max}, clamp/leaky_clamp function or "
             "Clamp/LeakyClamp module, keyword / positional / default arguments; every element is compared with the documented "
             "piecewise value in exact rationals. Non-trivial: some element has min > max.",
        strategy=lambda tier: clamp_case(), examples={"quick": 15000, "thorough": 150000}),
    Sub("whalley_wilmott", check_ww,
        rule="Hypothesis draws (option type, call/put, K, cost >= 0, a > 0 or default, 1-4 rows of (s, [running max], t, v, prev)) "
             "with prev either absolute or placed at delta + u*w (u in [-3,3]) of the oracle band; input rank 2 or 3; output "
             "compared with clip(prev, delta-w, delta+w) from 50-digit mpmath Black-Scholes (lookback: library Greeks, "
             "relation only); zero cost must give the BS delta. Non-trivial: some prev strictly outside the band, or a != 1.",
        strategy=lambda tier: ww_case(), examples={"quick": 6000, "thorough": 60000}),
    Sub("svi", check_svi,
        rule="svi_variance / SVIVariance with input and each parameter as Python float, 0-d tensor or vector (broadcast), "
             "a in [-.1,.5], b in [0,2], rho in [-1,1] incl. +-1, m in [-1,1], sigma in [0,2]; oracle: the formula in 40-digit "
             "mpmath. Non-trivial: sigma not in {0,1} and b != 0 (so the square is observable).",
        strategy=lambda tier: svi_case(), examples={"quick": 5000, "thorough": 50000}),
    Sub("bilerp", check_bilerp,
        rule="bilerp on four broadcastable tensors with float / 0-d / full tensor weights in [0,1] (and some in [-1,2]); oracle: "
             "the documented four-term formula in exact rationals. Non-trivial: w1 != w2, input2 != input3, weights not 0/1.",
        strategy=lambda tier: bilerp_case(), examples={"quick": 5000, "thorough": 50000}),
    Sub("box_muller", check_box_muller,
        rule="box_muller on uniform inputs in [0,1] incl. 0, values below epsilon, 1, and quarter angles; default and custom "
             "epsilon; oracle sqrt(-2 log max(u1,eps)) (cos, sin)(2 pi u2) in mpmath. Non-trivial: a generic angle and u1 != 1.",
        strategy=lambda tier: box_muller_case(), examples={"quick": 5000, "thorough": 50000}),
    Sub("realized", check_realized,
        rule="realized_variance / realized_volatility on positive paths (T in [2,8], rank 1 or 2), dt float or 0-d tensor; "
             "oracle mean(log-return^2)/dt and its square root in mpmath with the a-priori bound. Non-trivial: non-constant "
             "path and dt != 1.",
        strategy=lambda tier: realized_case(), examples={"quick": 4000, "thorough": 40000}),
]

META = {
    "technique": "property-based testing: generated inputs/bounds/parameters vs piecewise definitions in exact rationals "
                 "(clamps, bilerp) and 40-50 digit mpmath formulas (Whalley-Wilmott band from numerically differentiated "
                 "Black-Scholes prices, SVI, Box-Muller, realised volatility)",
    "level_text": "Exploration: thousands of generated clamp configurations (functions and modules, both inverted_output modes, "
                  "ties, inverted/one-sided/broadcast bounds), Whalley-Wilmott inputs with a != 1 and K != 1 against an "
                  "independent band, and helper inputs per run; the F6 reversion and formula mutants are caught "
                  "(mutants/results_c20.json).",
}
