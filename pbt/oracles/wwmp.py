"""Independent mpmath oracle for the Whalley-Wilmott band (C20).

Black-Scholes *prices* (zero rates) are written down from their definitions; delta and gamma are obtained by
differentiating the price expression symbolically (sympy) and evaluating the derivative in 60-digit mpmath
arithmetic, so no Greek formula of the library - or of this file - is trusted (numerical differentiation was
tried first and rejected: its relative accuracy collapses in the far tails):

  European call        S N(d1) - K N(d2)                 put: K N(-d2) - S N(-d1)
  European binary call N(d2)                             put: N(-d2)
  American binary call 1 if the running max reached K, else P(max_{[0,t]} S >= K) = N(d2) + (S/K) N(d1)
                       (reflection principle for Brownian motion with drift -sigma^2/2)

with d1 = log(S/K)/(sigma sqrt t) + sigma sqrt(t)/2, d2 = d1 - sigma sqrt t.

``band`` also returns a-priori bounds for the rounding error of the float evaluation of delta and of the
half-width w = (3 c Gamma^2 S / (2a))^(1/3); they follow from the conditioning of the documented formulas
(fixed before the first run, see the comments) and scale with the dtype's machine epsilon.
"""
import mpmath as mp

DPS = 60
DENORM_MIN = {"float32": 2.0 ** -149, "float64": 5e-324}


_GREEKS = {}


def _normal_cdf(x):
    import sympy as sp

    return sp.erfc(-x / sp.sqrt(2)) / 2  # erfc keeps full relative accuracy in the tails


def price_expr(kind: str, call: bool):
    """Zero-rate Black-Scholes price as a sympy expression in (S, K, t, v), written from the definitions above."""
    import sympy as sp

    S, K, t, v = sp.symbols("S K t v", positive=True)
    N = _normal_cdf
    W = v * sp.sqrt(t)
    d1 = sp.log(S / K) / W + W / 2
    d2 = d1 - W
    if kind == "european":
        expr = S * N(d1) - K * N(d2) if call else K * N(-d2) - S * N(-d1)
    elif kind == "european_binary":
        expr = N(d2) if call else N(-d2)
    elif kind == "american_binary":
        if not call:
            raise ValueError("no oracle for the American binary put")
        expr = N(d2) + (S / K) * N(d1)  # barrier not yet reached
    else:
        raise ValueError(kind)
    return (S, K, t, v), expr


def greeks(kind: str, call: bool, S, K, t, v, hit: bool = False):
    """(delta, gamma): symbolic derivatives (sympy) of the price in S, evaluated by mpmath at the working precision."""
    import sympy as sp

    if hit:  # American binary whose barrier has been reached is worth 1 for every S
        return mp.mpf(0), mp.mpf(0)
    key = (kind, call)
    if key not in _GREEKS:
        syms, expr = price_expr(kind, call)
        _GREEKS[key] = (sp.lambdify(syms, sp.diff(expr, syms[0]), "mpmath"),
                        sp.lambdify(syms, sp.diff(expr, syms[0], 2), "mpmath"))
    fd, fg = _GREEKS[key]
    return fd(S, K, t, v), fg(S, K, t, v)


def width(c, gamma, S, a):
    return mp.cbrt(3 * c * gamma * gamma * S / (2 * a))


def width_error(c, gamma, dgamma, S, a, eps, dtype):
    """|float w - w| bound given |float gamma - gamma| <= dgamma: monotone in |gamma|, plus the roundings of the five
    products, of the exponent 1/3 in the dtype (relative |ln w^3|/3 * eps) and an underflow allowance."""
    cw = mp.cbrt(3 * c * S / (2 * a))
    g = abs(gamma)
    w = cw * mp.cbrt(g * g)
    hi = cw * mp.cbrt((g + dgamma) ** 2)
    lo = cw * mp.cbrt(max(g - dgamma, 0) ** 2)
    dw = max(hi - w, w - lo)
    if w > 0:
        dw += w * (8 + abs(mp.log(w ** 3)) / 3) * eps
    return dw + 2 * mp.cbrt(mp.mpf(DENORM_MIN[dtype]))


def band(kind, call, K, c, a, s, t, v, m, eps, dtype):
    """-> dict(delta, gamma, w, ddelta, dw) for log-moneyness s, maturity t, volatility v, running max log-moneyness m."""
    with mp.workdps(DPS):
        K, c, a, s, t, v = (mp.mpf(x) for x in (K, c, a, s, t, v))
        S = K * mp.exp(s)
        hit = kind == "american_binary" and m is not None and m >= 0
        delta, gamma = greeks(kind, call, S, K, t, v, hit)
        W = v * mp.sqrt(t)
        d1 = s / W + W / 2
        d2 = d1 - W
        n = mp.npdf
        # d1, d2 in floats: quotient, product/sqrt, sum -> absolute error E1
        E1 = 3 * eps * (abs(s) / W + W)
        # relative error of npdf(d)/(products): exp(-(d^2/2 + log sqrt(2 pi))) amplifies the error of d by |d| and the
        # rounding of its own argument by (d^2/2 + 1); a handful of products/quotients on top
        r = lambda d, ops=8: abs(d) * E1 + (d * d / 2 + ops) * eps
        if kind == "european":
            ddelta = mp.mpf("0.4") * E1 + 4 * eps  # ncdf is 0.4-Lipschitz; erf/-1 roundings are absolute
            dgamma = abs(gamma) * r(d1)
        elif kind == "european_binary":
            ddelta = abs(delta) * r(d2)
            A = n(d2) / (W * S * S)
            # gamma = -A (1 + d2/W): the bracket cancels near d2 = -W
            dgamma = A * (r(d2) * abs(1 + d2 / W) + E1 / W + 2 * eps * (1 + abs(d2) / W))
        elif kind == "american_binary":
            if hit:
                ddelta = dgamma = mp.mpf(0)
            else:
                T1, T3 = n(d2) / (S * W), n(d1) / (K * W)
                ddelta = T1 * r(d2) + (mp.mpf("0.4") * E1 + 4 * eps) / K + T3 * r(d1)
                G1, G2 = n(d2) / (S * S * W), n(d2) / (S * S * W * W)
                G3, G4 = n(d1) / (S * K * W), n(d1) / (S * K * W * W)
                # four terms, two of which cancel exactly in exact arithmetic (S n(d1) = K n(d2)).  The module obtains
                # this gamma by back-propagating twice through the price graph (spot -> log-moneyness -> d1, d2 ->
                # ncdf, exp), about four times the elementary operations of a closed form: 32 roundings per term
                dgamma = (G1 * r(d2, 32) + G2 * (abs(d2) * r(d2, 32) + E1) + G3 * r(d1, 32)
                          + G4 * (abs(d1) * r(d1, 32) + E1))
        else:
            raise ValueError(kind)
        w = width(c, gamma, S, a)
        dw = width_error(c, gamma, dgamma, S, a, eps, dtype)
        return {"delta": delta, "gamma": gamma, "w": w, "ddelta": ddelta, "dw": dw, "S": S}


def band_from_library_greeks(K, c, a, s, delta, gamma, eps, dtype):
    """Relation form (lookback): delta and gamma are the library's own floats; only the band formula is independent."""
    with mp.workdps(DPS):
        K, c, a, s, delta, gamma = (mp.mpf(x) for x in (K, c, a, s, delta, gamma))
        S = K * mp.exp(s)
        w = width(c, gamma, S, a)
        dw = width_error(c, gamma, 2 * eps * abs(gamma), S, a, eps, dtype)
        return {"delta": delta, "gamma": gamma, "w": w, "ddelta": mp.mpf(0), "dw": dw, "S": S}


def clip_verdict(got, prev, b, eps):
    """Compare ``got`` with clip(prev, delta-w, delta+w).  -> (ok, region, want, tol)."""
    with mp.workdps(DPS):
        lo, hi = b["delta"] - b["w"], b["delta"] + b["w"]
        tol = 2 * (b["ddelta"] + b["dw"] + eps * (abs(b["delta"]) + b["w"]))
        g, p = mp.mpf(got), mp.mpf(prev)
        if lo + tol < p < hi - tol:
            return g == p, "inside", p, mp.mpf(0)
        if p <= lo - tol:
            return abs(g - lo) <= tol, "below", lo, tol
        if p >= hi + tol:
            return abs(g - hi) <= tol, "above", hi, tol
        want = min(max(p, lo), hi)
        return (g == p) or abs(g - want) <= 2 * tol, "borderline", want, 2 * tol
