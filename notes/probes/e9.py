import torch, math, warnings, copy
warnings.filterwarnings("ignore")
from pfhedge.instruments import *
from pfhedge.nn import *
torch.manual_seed(0)
def build():
    torch.manual_seed(5)
    m=torch.nn.Sequential(torch.nn.Linear(3,4),torch.nn.Tanh(),torch.nn.Dropout(0.3),torch.nn.Linear(4,1))
    return m
for validation in [True, False]:
  for opt in ["cls","inst"]:
    d=EuropeanOption(BrownianStock(cost=1e-3), maturity=5/250)
    m1=build(); h1=Hedger(m1,["log_moneyness","time_to_maturity","volatility"],criterion=ExpectedShortfall(0.2))
    torch.manual_seed(77)
    o = torch.optim.SGD if opt=="cls" else torch.optim.SGD(h1.model.parameters(), lr=0.1)
    if opt=="cls":
        import functools
        class SGD2(torch.optim.SGD):
            def __init__(self, params): super().__init__(params, lr=0.1)
        o=SGD2
    hist=h1.fit(d,n_epochs=3,n_paths=16,n_times=2,optimizer=o,verbose=False,validation=validation,init_state=(1.1,))
    # reference
    d2=EuropeanOption(BrownianStock(cost=1e-3), maturity=5/250)
    m2=build(); h2=Hedger(m2,["log_moneyness","time_to_maturity","volatility"],criterion=ExpectedShortfall(0.2))
    torch.manual_seed(77)
    o2=torch.optim.SGD(m2.parameters(), lr=0.1)
    hist2=[]
    for e in range(3):
        h2.train(); o2.zero_grad()
        d2.simulate(16, init_state=(1.1,))
        loss=h2.criterion(h2.compute_portfolio(d2), d2.payoff()); loss.backward(); o2.step()
        if validation:
            h2.eval()
            with torch.no_grad():
                ls=[]
                for _ in range(2):
                    d2.simulate(16, init_state=(1.1,)); ls.append(h2.criterion(h2.compute_portfolio(d2), d2.payoff()))
                hist2.append(torch.stack(ls).mean().item())
    same=all(torch.equal(a,b) for a,b in zip(m1.parameters(),m2.parameters()))
    print(validation,opt,"params equal",same,"hist",hist,hist2 if validation else None)
