"""C04 - Risk measures obey the convex-risk-measure axioms (relations between outputs on constructed pairs)."""
from fractions import Fraction as Fr

import numpy as np
import torch
from hypothesis import strategies as st

from ..core import Sub
from ..gens import DTYPES, EPS, fl
from ..oracles import riskmp as R
from ..oracles.exact import round_to
from ..riskgen import NP, build, build_nonneg, columns, nonneg_spec, sample_spec, shape_s, sub_dtype, to_torch
from .c05 import (A_S, AX_MAX, AX_MAX_OF, LAM_S, QCVAR_KINDS, QCVAR_SCALES, QCVAR_SHIFTS, UTIL_SCALES, _nan_or_inf, p_spec_s,
                  qcvar_sut, resolve_p)

PROPERTY_ID = "C04"
ASSUMPTIONS = [
    "pairs are constructed, never filtered: y = x + nonneg (exact zeros included), x + c and k*x formed in the dtype with "
    "numpy; whatever rounding that introduces is measured exactly (Fractions) and added to the tolerance, because all three "
    "risk measures are 1-Lipschitz in the sup norm (utility losses: their exact local Lipschitz constant is used)",
    "each relation is asserted up to the sum of the a-priori evaluation error bounds of the values it involves: entropic "
    "4*eps*(max|x|+(N+8)/a)+2*eps*|value|; expected shortfall (N+4)*eps*max|x|; quadratic CVaR the bisection-precision "
    "bound derived in C05 (excess of the objective over its exact minimum at stationarity-level +- (N+8)*eps*range widened "
    "by P=1e-6*10**int(log10(range)), plus evaluation rounding); utility losses (N+8+2a|x|)*eps*mean|u|",
    "a max_iter RuntimeError of quadratic_cvar is always reported; it is attributed to known finding K5 only when the sample "
    "being evaluated lies in the a-priori unreachable-precision region defined in C05 (the generator stays away from it)",
    "quadratic-CVaR relations are skipped (counted) when any sample involved lies in the known-finding region K1 "
    "max(x-mean) <= 1/(2 lam), or where the dtype cannot resolve the stationarity level; bounds for QCVaR are the entropic/ES "
    "bounds lowered by 1/(4 lam)",
    "perturbations are applied through the input or through the target (loss(x, z) is the risk of x - z); functional forms "
    "are also called with the sample axis moved to dim 1 / -1",
    "utility losses: a*|x| <= 80 (a lowered deterministically otherwise); isoelastic on positive samples, a in (0,1]",
    "strictness (non-trivial): the sample is not constant and the two sides of some relation differ by more than the tolerance",
]

CRITS = ["entropic", "es", "qcvar"]


def T(dtype):
    return DTYPES[dtype]


# ------------------------------------------------------------------------------------ evaluation
def evaluate(ctx, crit, form, param, d_logical: np.ndarray, x: np.ndarray, z, dim, label, unreachable=False, name="x"):
    """Risk of the position d = x - z (sample axis 0 of the logical arrays).  Module: loss(x, z) (dim 0).
    Functional: f(d moved to `dim`)."""
    from pfhedge.nn import EntropicRiskMeasure, ExpectedShortfall, QuadraticCVaR
    from pfhedge.nn.functional import entropic_risk_measure, expected_shortfall, quadratic_cvar

    with (qcvar_sut(ctx, label, unreachable, sample=name) if crit == "qcvar" else ctx.sut(label)):
        if form == "module":
            mod = {"entropic": EntropicRiskMeasure, "es": ExpectedShortfall, "qcvar": QuadraticCVaR}[crit](param)
            out = mod(to_torch(x)) if z is None else mod(to_torch(x), to_torch(z) if isinstance(z, np.ndarray) else z)
        else:
            if crit == "entropic":
                out = entropic_risk_measure(to_torch(d_logical), a=param)
            else:
                t = to_torch(np.moveaxis(d_logical, 0, dim))
                out = expected_shortfall(t, param, dim=dim) if crit == "es" else quadratic_cvar(t, param, dim=dim)
    if not isinstance(out, torch.Tensor) or tuple(out.shape) != tuple(d_logical.shape[1:]):
        ctx.fail(label + "/shape", f"output shape {tuple(getattr(out, 'shape', ()))} != trailing shape {tuple(d_logical.shape[1:])}")
        return None
    return out


class Val:
    """One evaluated sample: per column the value and its (below, above) error bounds; flags for exclusions."""

    def __init__(self, name, d, got, crit, param, dtype, prec=None):
        self.name, self.d = name, d
        self.cols = columns(d)
        eps = EPS[dtype]
        self.v, self.err, self.skip, self.k1 = [], [], [], []
        for idx, col in self.cols:
            g = got[idx].item()
            self.v.append(g)
            sk, k1 = None, False
            if crit == "entropic":
                e = R.entropic_tol(col, param, eps, g if not _nan_or_inf(g) else 0.0)
                er = (Fr(e), Fr(e))
            elif crit == "es":
                e = Fr((len(col) + 4) * eps) * max(abs(Fr(c)) for c in col) + 4 * Fr(R.tiny(eps))
                er = (e, e)
            else:
                q = R.QCVaR(col, param)
                k1 = bool(q.in_k1)
                # all brackets are halved together until the widest is below the precision of the call (see C05)
                wmax = max(float(max(c) - min(c)) for _, c in self.cols) + 2e-8
                tl = q.tolerances(prec * (float(q.range) + 2e-8) / wmax, eps, level_relerr=2.0 ** -23)
                if tl is None:
                    sk, er = "qcvar:stationarity-level-below-dtype-resolution", (Fr(0), Fr(0))
                else:
                    # got in [gmin - below, gmin + above]  ->  |got - rho| bounds: rho - below <= got <= rho + above
                    er = tl
            self.err.append(er)
            self.skip.append(sk)
            self.k1.append(k1)


def mixture(xa: np.ndarray, ya: np.ndarray, w: float, dtype) -> np.ndarray:
    with np.errstate(all="ignore"):
        t = NP[dtype]
        return (t(w) * xa + t(1.0 - w) * ya).astype(t)


def max_dev(col_a, exact_fn) -> Fr:
    return max((abs(Fr(a) - e) for a, e in zip(col_a, exact_fn)), default=Fr(0))


@st.composite
def coherent_case(draw):
    dtype = draw(st.sampled_from(["float32", "float64"]))
    crit = draw(st.sampled_from(CRITS))
    shape = draw(shape_s(large=12))
    form = draw(st.sampled_from(["module", "functional"]))
    dims = [0, 0] + ([1, -1] if len(shape) >= 2 else [])
    dim = draw(st.sampled_from(dims)) if (form == "functional" and crit != "entropic") else 0
    if crit == "qcvar":
        kw = dict(scales=QCVAR_SCALES[dtype], shifts=QCVAR_SHIFTS[dtype], kinds=QCVAR_KINDS)
        nn_scales = [0.1, 1.0, 1.0, 10.0, 100.0]
    else:
        kw = {}
        nn_scales = None
    x = draw(sample_spec(dtype, shape, **kw))
    y = draw(sample_spec(dtype, shape, **kw))
    tk = draw(st.sampled_from(["none", "none", "scalar", "tensor"])) if form == "module" else "none"
    tgt = {"kind": tk}
    if tk == "scalar":
        tgt["value"] = round_to(draw(st.one_of(st.sampled_from([0.5, -1.0, 2.25]), fl(-3.0, 3.0, dtype))), dtype)
    elif tk == "tensor":
        tgt["spec"] = draw(sample_spec(dtype, shape, **({"scales": [0.1, 1.0, 10.0], "shifts": [0.0, 1.0]} if crit == "qcvar" else {})))
    if crit == "qcvar" and dtype == "float32":
        # keep x + c where the bisection precision stays reachable in float32 (C05 ASSUMPTIONS)
        c = draw(st.one_of(st.sampled_from([1.0, -1.0, 0.5, 2.0, -0.25, 2.0 ** -10]),
                           st.integers(-64, 64).map(lambda k: k / 16.0), fl(-4.0, 4.0, dtype)))
    else:
        c = draw(st.one_of(st.sampled_from([1.0, -1.0, 0.5, 2.0, -0.25, 1024.0, 2.0 ** -10]),
                           st.integers(-64, 64).map(lambda k: k / 16.0), fl(-100.0, 100.0, dtype)))
    if crit == "entropic":
        param = draw(A_S)
    elif crit == "es":
        param = draw(p_spec_s())
    else:
        param = draw(LAM_S)
    return {"dtype": dtype, "crit": crit, "form": form, "dim": dim, "x": x, "y": y, "target": tgt,
            "delta": draw(nonneg_spec(dtype, shape, scales=nn_scales)), "c": round_to(c, dtype),
            "w": draw(st.one_of(st.sampled_from([0.5, 0.25, 0.75, 0.125]), st.floats(0.01, 0.99))),
            "via": draw(st.sampled_from(["input", "input", "target"])) if form == "module" else "input",
            "param": param,
            "param2": draw(A_S) if crit == "entropic" else (draw(p_spec_s()) if crit == "es" else None),
            "k": draw(st.one_of(st.sampled_from([2.0, 0.5, 4.0, 0.25, 1024.0, 2.0 ** -10, 3.0, 0.1]), st.floats(0.01, 100.0))),
            "k1_probe": False,
            "col_scales": (draw(st.sampled_from([None, None, None, [1.0, 1e3], [1e4, 1.0, 1e-2], [1.0, 1e5]]))
                           if crit == "qcvar" and dtype == "float64" and len(shape) >= 2 and tk == "none" else None)}


def coherent_samples(case):
    """All positions (logical arrays, sample axis 0) a case evaluates: name -> (d, x_input, z_target)."""
    dtype = case["dtype"]
    x = build(case["x"], dtype)
    y = build(case["y"], dtype)
    delta = build_nonneg(case["delta"], dtype)
    cs = case.get("col_scales")
    if cs and x.ndim >= 2:
        # books of very different size side by side (the same factors for every position of the case)
        def scaled(a):
            flat = a.reshape(a.shape[0], -1).copy()
            for j in range(flat.shape[1]):
                flat[:, j] = flat[:, j] * flat.dtype.type(cs[j % len(cs)])
            return flat.reshape(a.shape)
        x, y, delta = scaled(x), scaled(y), scaled(delta)
    tk = case["target"]["kind"]
    via = case["via"]
    c = float(case["c"])
    if tk == "none":
        z = None
    elif tk == "scalar":
        z = float(case["target"]["value"])
    else:
        z = build(case["target"]["spec"], dtype)
    if via == "target" and not isinstance(z, np.ndarray):
        z = np.full(x.shape, 0.0 if z is None else z, dtype=NP[dtype])

    def pos(xa, za):
        return xa if za is None else sub_dtype(xa, za)

    with np.errstate(all="ignore"):
        out = {"x": (pos(x, z), x, z), "y": (pos(y, z), y, z)}
        if via == "input":
            xm = (x + delta).astype(NP[dtype])
            xc = (x + NP[dtype](c)).astype(NP[dtype])
            out["better"] = (pos(xm, z), xm, z)
            out["cash"] = (pos(xc, z), xc, z)
        else:
            zm = (z - delta).astype(NP[dtype])
            zc = (z - NP[dtype](c)).astype(NP[dtype])
            out["better"] = (pos(x, zm), x, zm)
            out["cash"] = (pos(x, zc), x, zc)
        mix = mixture(x, y, case["w"], dtype)
        out["mix"] = (pos(mix, z), mix, z)
        if case["crit"] == "es":
            xs = (NP[dtype](case["k"]) * x).astype(NP[dtype])
            out["scaled"] = (xs, xs, None)  # positive homogeneity is a statement about the position itself
            out["plain"] = (x, x, None)
    return out


def check_coherent(case, ctx):
    dtype, crit, form, dim = case["dtype"], case["crit"], case["form"], case["dim"]
    eps = EPS[dtype]
    S = coherent_samples(case)
    if not all(np.isfinite(v[0]).all() for v in S.values()):
        ctx.cls("skipped:non-finite-sample")
        return
    n = S["x"][0].shape[0]
    if crit == "entropic":
        param = float(case["param"])
    elif crit == "es":
        param = resolve_p(case["param"], n)
    else:
        param = float(case["param"])
    base = "C04/" + crit
    prec, unreachable = {}, {}
    if crit == "qcvar":
        for name, (d, _, _) in S.items():
            cols = columns(d)
            prec[name] = R.qcvar_precision(max(float(max(c) - min(c)) for _, c in cols))
            unreachable[name] = any(R.qcvar_precision_may_be_unreachable(c, eps) for _, c in cols)

    V = {}
    for name, (d, xa, za) in S.items():
        f = form if name not in ("scaled", "plain") else "functional"
        got = evaluate(ctx, crit, f, param, d, xa, za, dim, base, unreachable.get(name, False), name)
        if got is None:
            return
        V[name] = Val(name, d, got, crit, param, dtype, prec.get(name))
    probe = bool(case.get("k1_probe"))
    ncol = len(V["x"].cols)
    strict = set()
    lower = Fr(0) if crit != "qcvar" else 1 / (4 * Fr(param))

    def usable(j, *names):
        """False (and counted) if a QCVaR comparison must be skipped for column j."""
        for nm in names:
            if V[nm].skip[j]:
                ctx.exclude(V[nm].skip[j])
                return False
        if not probe and any(V[nm].k1[j] for nm in names):
            ctx.exclude("K1-region(max(x-mean)<=1/(2lam))")
            return False
        return True

    def k1names(j, *names):
        return [nm for nm in names if V[nm].k1[j]]

    def bad(*vals):
        return any(_nan_or_inf(v) for v in vals)

    for j in range(ncol):
        idx, xcol = V["x"].cols[j]
        const = len(set(xcol)) <= 1
        gx = V["x"].v[j]
        ex = V["x"].err[j]
        # ---- bounds (every evaluated sample of the case is a sample in its own right: x and y)
        for nm in ("x", "y"):
            if not usable(j, nm):
                continue
            col = V[nm].cols[j][1]
            g, (eb, ea) = V[nm].v[j], V[nm].err[j]
            fc = [Fr(v) for v in col]
            lo, hi, mean = -max(fc) - lower, -min(fc) - lower, -sum(fc) / len(fc) - lower
            if bad(g) or not (lo - eb <= Fr(g) <= hi + ea) or not (Fr(g) >= mean - eb):
                ctx.fail(base + "/bounds", f"column {idx} of {nm}: rho={g!r} outside [-max, -min]{'-1/(4lam)' if lower else ''} = "
                         f"[{float(lo)!r}, {float(hi)!r}] or below -mean{'-1/(4lam)' if lower else ''} = {float(mean)!r} ({crit} {param!r}, N={n})",
                         column=list(idx), sample=nm, got=g, k1_samples=k1names(j, nm), param=param)
                return
            if len(set(col)) > 1 and Fr(g) - mean > eb and hi - Fr(g) > ea:
                strict.add("bounds")
        # ---- monotone
        if usable(j, "x", "better"):
            gb, eb_ = V["better"].v[j], V["better"].err[j]
            bcol = V["better"].cols[j][1]
            assert all(b >= a for a, b in zip(xcol, bcol)), "constructed pair is not ordered"
            tol = eb_[1] + ex[0]
            if bad(gx, gb) or not Fr(gb) <= Fr(gx) + tol:
                ctx.fail(base + "/monotone", f"column {idx}: rho(better)={gb!r} > rho(x)={gx!r} although better >= x pointwise "
                         f"(tol {float(tol):.3e}; {crit} {param!r}, N={n}, via {case['via']})", column=list(idx), got=[gx, gb],
                         k1_samples=k1names(j, "x", "better"), param=param)
                return
            if not const and Fr(gx) - Fr(gb) > tol:
                strict.add("monotone")
        # ---- cash invariance
        if usable(j, "x", "cash"):
            gc, ec = V["cash"].v[j], V["cash"].err[j]
            c = Fr(case["c"])
            ccol = V["cash"].cols[j][1]
            dev = max_dev(ccol, [Fr(a) + c for a in xcol])
            diff = Fr(gc) - (Fr(gx) - c) if not bad(gx, gc) else None
            # got_c <= rho(x+c) + above_c ; rho(x+c) <= rho(x) - c + dev ; rho(x) <= got_x + below_x
            if diff is None or diff > ec[1] + ex[0] + dev or -diff > ec[0] + ex[1] + dev:
                ctx.fail(base + "/cash-invariant", f"column {idx}: rho(x+c)={gc!r}, rho(x)-c={float(Fr(gx) - c) if diff is not None else None!r} "
                         f"(c={float(c)!r}, via {case['via']}; {crit} {param!r}, N={n})", column=list(idx), got=[gx, gc],
                         k1_samples=k1names(j, "x", "cash"), param=param)
                return
            if not const and c != 0:
                strict.add("cash")
        # ---- convexity
        if usable(j, "x", "y", "mix"):
            w = Fr(float(NP[dtype](case["w"])))
            w1 = Fr(float(NP[dtype](1.0 - case["w"])))
            gy, ey = V["y"].v[j], V["y"].err[j]
            gm, em = V["mix"].v[j], V["mix"].err[j]
            ycol, mcol = V["y"].cols[j][1], V["mix"].cols[j][1]
            # position of the mixture: for via target / scalar targets the mixture is of the inputs, the position
            # is mix - z; the exact convex combination of the positions x-z and y-z has weights w + w1 (~1)
            exact_mix = [w * Fr(a) + w1 * Fr(b) for a, b in zip(xcol, ycol)]
            dev = max_dev(mcol, exact_mix)
            # weights sum to s = w + w1 which may differ from 1 by an ulp: rho(s-combination) handled through dev
            s = w + w1
            if s != 1:
                # the float weights sum to s = 1 +- ulp: rho(s m) differs from rho(m) by at most |s-1| max|m|
                dev += abs(s - 1) * max((abs(Fr(a)) + abs(Fr(b)) for a, b in zip(xcol, ycol)), default=Fr(0))
            rhs = w * Fr(gx) + w1 * Fr(gy) if not bad(gx, gy) else None
            tol = em[1] + w * ex[0] + w1 * ey[0] + dev
            if rhs is None or bad(gm) or not Fr(gm) <= rhs + tol + abs(s - 1) * (abs(Fr(gx)) + abs(Fr(gy))):
                ctx.fail(base + "/convex", f"column {idx}: rho(w x+(1-w) y)={gm!r} > w rho(x)+(1-w) rho(y)={float(rhs) if rhs is not None else None!r} "
                         f"(w={float(w)!r}, tol {float(tol):.3e}; {crit} {param!r}, N={n})", column=list(idx), got=[gx, gy, gm],
                         k1_samples=k1names(j, "x", "y", "mix"), param=param)
                return
            if len(set(zip(xcol, ycol))) > 1 and rhs - Fr(gm) > tol:
                strict.add("convex")
        # ---- expected shortfall: positive homogeneity
        if crit == "es":
            gs, es_, gp, ep = V["scaled"].v[j], V["scaled"].err[j], V["plain"].v[j], V["plain"].err[j]
            k = Fr(float(NP[dtype](case["k"])))
            pcol, scol = V["plain"].cols[j][1], V["scaled"].cols[j][1]
            dev = max_dev(scol, [k * Fr(a) for a in pcol])
            tol = es_[0] + k * ep[0] + dev
            if bad(gs, gp) or abs(Fr(gs) - k * Fr(gp)) > tol:
                ctx.fail(base + "/positive-homogeneous", f"column {idx}: ES(k x)={gs!r} != k ES(x)={float(k * Fr(gp)) if not bad(gp) else None!r} "
                         f"(k={float(k)!r}, p={param!r}, N={n})", column=list(idx), got=[gp, gs], param=param)
                return
            if not const and k != 1:
                strict.add("homogeneous")

    # ---- second parameter: ES non-increasing in p, entropic non-decreasing in a
    if crit in ("es", "entropic"):
        p2 = resolve_p(case["param2"], n) if crit == "es" else float(case["param2"])
        d, xa, za = S["x"]
        got2 = evaluate(ctx, crit, form, p2, d, xa, za, dim, base)
        if got2 is None:
            return
        V2 = Val("x@param2", d, got2, crit, p2, dtype)
        for j in range(ncol):
            idx, xcol = V["x"].cols[j]
            g1, g2 = V["x"].v[j], V2.v[j]
            tol = V["x"].err[j][0] + V2.err[j][0]
            if param == p2:
                continue
            # order so that (lo parameter, hi parameter)
            (pl, gl), (ph, gh) = sorted([(param, g1), (p2, g2)])
            if crit == "es":
                ok = not bad(gl, gh) and Fr(gl) >= Fr(gh) - tol
                lab, txt = "/monotone-in-p", f"ES_p={gl!r} at p={pl!r} < ES_p={gh!r} at the larger p={ph!r}"
            else:
                ok = not bad(gl, gh) and Fr(gl) <= Fr(gh) + tol
                lab, txt = "/monotone-in-a", f"rho_a={gl!r} at a={pl!r} > rho_a={gh!r} at the larger a={ph!r}"
            if not ok:
                ctx.fail(base + lab, f"column {idx}: {txt} (N={n}, tol {float(tol):.3e})", column=list(idx), got=[gl, gh], params=[pl, ph])
                return
            if len(set(xcol)) > 1 and abs(Fr(gl) - Fr(gh)) > tol:
                strict.add("param")

    ctx.nontrivial(bool(strict))
    for s_ in sorted(strict):
        ctx.cls("strict:" + s_ + "/" + crit)
    allx = [c for _, c in V["x"].cols]
    ctx.cls("crit:" + crit, "form:" + form, "dtype:" + dtype, "dim:%d" % dim, "ndim:%d" % S["x"][0].ndim,
            "N=1" if n == 1 else "N>=2", "target:" + case["target"]["kind"], "via:" + case["via"])
    if any(len(set(c)) < len(c) for c in allx if len(c) > 1):
        ctx.cls("ties")
    if crit == "es":
        ctx.cls(R.pn_class(param, n))
    if crit == "entropic" and max(abs(v) for c in allx for v in c) * param > 50:
        ctx.cls("|a*x|>50")
    if crit == "qcvar":
        for nm in ("x", "y", "better", "cash", "mix"):
            for k1 in V[nm].k1:
                ctx.cls("sample:in-K1-region" if k1 else "sample:outside-K1-region")


def known_k1(case, violation) -> bool:
    """K1: a quadratic-CVaR relation failing on a column for which one of the samples involved lies inside
    max(x-mean) <= 1/(2 lam).  Everything else under C04/qcvar stays a violation."""
    if not violation["label"].startswith("C04/qcvar/") or violation["label"].endswith(("/raises", "/shape", "/raises-unreachable-precision")):
        return False
    det = violation.get("detail") or {}
    names = det.get("k1_samples") or []
    if not names:
        return False
    S = coherent_samples(case)
    lam = float(case["param"])
    want = tuple(det.get("column", []))
    for nm in names:
        for idx, col in columns(S[nm][0]):
            if tuple(idx) == want and R.QCVaR(col, lam).in_k1:
                return True
    return False


def known_k5(case, violation) -> bool:
    """K5: quadratic_cvar's max_iter RuntimeError, only when the sample being evaluated lies in the a-priori region where the
    bisection precision may be below the float spacing of the mean-centred bracket (see C05)."""
    if violation["label"] != "C04/qcvar/raises-unreachable-precision":
        return False
    det = violation.get("detail") or {}
    if det.get("apriori_unreachable") is not True or case.get("crit") != "qcvar":
        return False
    S = coherent_samples(case)
    nm = det.get("sample")
    if nm not in S:
        return False
    eps = EPS[case["dtype"]]
    return any(R.qcvar_precision_may_be_unreachable(col, eps) for _, col in columns(S[nm][0]))


KNOWN = {"K1": known_k1, "K5": known_k5}


# ------------------------------------------------------------------------------------ utility losses
@st.composite
def utilloss_case(draw):
    dtype = draw(st.sampled_from(["float32", "float64"]))
    which = draw(st.sampled_from(["EntropicLoss", "IsoelasticLoss"]))
    shape = draw(shape_s(max_n=32))
    if which == "IsoelasticLoss":
        kw = dict(scales=[1e-3, 0.1, 1.0, 1.0, 10.0, 1e3], positive=True)
        a = draw(st.one_of(st.sampled_from([1.0, 1.0, 0.5, 0.25]), st.floats(0.01, 1.0)))
        nn = [1e-3, 0.1, 1.0, 10.0]
    else:
        kw = dict(scales=UTIL_SCALES, shifts=[0.0, 0.0, 1.0, -1.0, 100.0])
        a = draw(A_S)
        nn = None
    return {"dtype": dtype, "which": which, "x": draw(sample_spec(dtype, shape, **kw)), "y": draw(sample_spec(dtype, shape, **kw)),
            "delta": draw(nonneg_spec(dtype, shape, scales=nn)), "a": a,
            "w": draw(st.one_of(st.sampled_from([0.5, 0.25, 0.75]), st.floats(0.01, 0.99))),
            "via": draw(st.sampled_from(["input", "target"]))}


def check_utilloss(case, ctx):
    from pfhedge.nn import EntropicLoss, IsoelasticLoss

    dtype, which = case["dtype"], case["which"]
    eps = EPS[dtype]
    t = NP[dtype]
    x, y, delta = build(case["x"], dtype), build(case["y"], dtype), build_nonneg(case["delta"], dtype)
    with np.errstate(all="ignore"):
        better = (x + delta).astype(t)
        mix = mixture(x, y, case["w"], dtype)
    S = {"x": x, "y": y, "better": better, "mix": mix}
    if not all(np.isfinite(v).all() for v in S.values()):
        ctx.cls("skipped:non-finite-sample")
        return
    iso = which == "IsoelasticLoss"
    if iso:
        a = case["a"]
    else:
        m = max(float(np.max(np.abs(v))) for v in S.values())
        cap = AX_MAX_OF[dtype]  # the loss value itself must stay representable in the dtype (84 / 700), not more
        a = case["a"] if case["a"] * m <= cap else cap / m
    label = "C04/" + which
    mod = IsoelasticLoss(a) if iso else EntropicLoss(a)
    G = {}
    for nm, arr in S.items():
        with ctx.sut(label):
            if nm == "better" and case["via"] == "target":
                # same position reached through the target: x - (-delta)
                got = mod(to_torch(x), to_torch((-delta).astype(t)))
            else:
                got = mod(to_torch(arr))
        if not isinstance(got, torch.Tensor) or tuple(got.shape) != tuple(arr.shape[1:]):
            ctx.fail(label + "/shape", f"output shape {tuple(getattr(got, 'shape', ()))} != trailing shape {tuple(arr.shape[1:])}")
            return
        G[nm] = got
    strict = set()
    cols = {nm: columns(arr) for nm, arr in S.items()}
    for j, (idx, xcol) in enumerate(cols["x"]):
        ycol, bcol, mcol = cols["y"][j][1], cols["better"][j][1], cols["mix"][j][1]
        tolf = R.isoelastic_loss_tol if iso else R.entropic_loss_tol
        gx, gy, gb, gm = (G[k][idx].item() for k in ("x", "y", "better", "mix"))
        ex, ey, eb, em = (Fr(tolf(c, a, eps)) for c in (xcol, ycol, bcol, mcol))
        if not iso and not any(_nan_or_inf(v) for v in (gx, gy, gb, gm)):
            # the definition-based bound eps * mean(exp_i * (2a|x_i|+n+8)) never exceeds eps * (2a max|x|+n+8) * loss: cap it by
            # that multiple of the COMPUTED loss (equal within 1% on correct code), so that a loss which is far too small -
            # e.g. silently saturated - does not hide behind the rounding error of the value it should have had
            def cap(e, g, c):
                alt = Fr(1.01 * eps * (2 * a * max(abs(v) for v in c) + len(c) + 8) * abs(g)) + Fr(4 * R.tiny(eps))
                return min(e, alt)
            ex, ey, eb, em = cap(ex, gx, xcol), cap(ey, gy, ycol), cap(eb, gb, bcol), cap(em, gm, mcol)
        if any(_nan_or_inf(v) for v in (gx, gy, gb, gm)):
            ctx.fail(label + "/monotone", f"column {idx}: non-finite loss {[gx, gy, gb, gm]}", column=list(idx))
            return
        if not Fr(gb) <= Fr(gx) + ex + eb:
            ctx.fail(label + "/monotone", f"column {idx}: loss(better)={gb!r} > loss(x)={gx!r} although better >= x pointwise (a={a!r}, via {case['via']})",
                     column=list(idx), a=a)
            return
        if len(set(xcol)) > 1 and Fr(gx) - Fr(gb) > ex + eb:
            strict.add("monotone")
        w, w1 = Fr(float(t(case["w"]))), Fr(float(t(1.0 - case["w"])))
        exact_mix = [w * Fr(p) + w1 * Fr(q) for p, q in zip(xcol, ycol)]
        dev = max_dev(mcol, exact_mix)
        # local Lipschitz constant of the loss in the sup norm at the mixture: mean |u'(z)| (2x for the nearby exact point)
        with R.mp.workdps(30):
            if iso:
                lip = sum((1 - a) * R.mp.mpf(v) ** (-a) if a != 1.0 else 1 / R.mp.mpf(v) for v in mcol) / len(mcol)
            else:
                lip = sum(a * R.mp.exp(-a * R.mp.mpf(v)) for v in mcol) / len(mcol)
            lipf = Fr(float(2 * lip))
        s = w + w1
        slack = abs(s - 1) * (abs(Fr(gx)) + abs(Fr(gy)) + lipf * max(abs(Fr(v)) for v in mcol))
        rhs = w * Fr(gx) + w1 * Fr(gy)
        tol = em + w * ex + w1 * ey + dev * lipf + slack
        if not Fr(gm) <= rhs + tol:
            ctx.fail(label + "/convex", f"column {idx}: loss(w x+(1-w) y)={gm!r} > w loss(x)+(1-w) loss(y)={float(rhs)!r} (a={a!r}, w={float(w)!r}, "
                     f"tol {float(tol):.3e})", column=list(idx), a=a)
            return
        if len(set(zip(xcol, ycol))) > 1 and rhs - Fr(gm) > tol:
            strict.add("convex")
    ctx.nontrivial(bool(strict))
    for s_ in sorted(strict):
        ctx.cls("strict:" + s_ + "/" + which)
    ctx.cls("which:" + which, "dtype:" + dtype, "ndim:%d" % x.ndim, "via:" + case["via"], "N=1" if x.shape[0] == 1 else "N>=2")
    if iso:
        ctx.cls("iso:a==1" if a == 1.0 else "iso:a!=1")


SUBS = [
    Sub("coherent", check_coherent,
        rule="criterion in {entropic(a), ES(p), QCVaR(lam)} x module/functional (functional ES/QCVaR also with the sample axis at "
             "dim 1/-1) x N in [1,64] x trailing shape (), (M), (M,K) x float32/64; samples: explicit lists with ties, constants, "
             "seeded normal/Cauchy/tied, scales 1e-6..1e6; constructed partners x+nonneg (with zeros), x+c, w x+(1-w) y, k x "
             "applied through the input or the target; second parameter for ES (p) / entropic (a). Relations: monotone, "
             "cash-invariant, convex, bounds (-max <= rho <= -min, rho >= -mean; QCVaR lowered by 1/(4lam)), ES positively "
             "homogeneous and non-increasing in p, entropic non-decreasing in a. Non-trivial: sample not constant and the two "
             "sides of some relation differ by more than the tolerance.",
        strategy=lambda tier: coherent_case(), examples={"quick": 6000, "thorough": 60000},
        time_cap={"quick": 400.0, "thorough": 2400.0}),
    Sub("utility_losses", check_utilloss,
        rule="EntropicLoss(a) (a*|x|<=80) and IsoelasticLoss(a in (0,1]) on positive samples: monotone on x <= x+nonneg (through "
             "input or target) and convex on w x+(1-w) y, per column of any trailing shape. Non-trivial as above.",
        strategy=lambda tier: utilloss_case(), examples={"quick": 3000, "thorough": 30000},
        time_cap={"quick": 300.0, "thorough": 1800.0}),
]

META = {
    "technique": "property-based testing: metamorphic relations (monotone, cash-invariant, convex, homogeneous, parameter "
                 "monotonicity, bounds) on constructed sample pairs, rounding of the construction measured exactly in Fractions",
    "level_text": "Exploration: thousands of generated samples with constructed partners per run, each axiom asserted per column at "
                  "an a-priori rounding / bisection-precision tolerance, strict (non-degenerate) instances counted per relation and "
                  "criterion; quadratic-CVaR relations are skipped inside the known-finding region K1 (committed replay keeps it visible).",
}
