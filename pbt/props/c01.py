"""C01 - Hedging P&L is the self-financing wealth identity."""
from fractions import Fraction as Fr

import torch
from hypothesis import strategies as st

from ..core import Sub
from ..gens import EPS, DTYPES, build_scenario, hedge_list, nested, real_elements, scenario, simulate
from ..oracles.exact import pl_exact, round_to

PROPERTY_ID = "C01"
SUBNORMAL = {"float32": 2.0 ** -149, "float64": 5e-324}
ASSUMPTIONS = [
    "cost rates are the Python floats rounded to the dtype of spot (representation step only)",
    "tolerance (4HT+8)*eps(dtype)*sum|terms| - forward error bound of a sum of HT products",
    "the hedge 'it computes' is compute_hedge on the same buffers (deterministic models); C03 checks compute_hedge itself",
]


# ------------------------------------------------------------------------------------- A
@st.composite
def pl_case(draw):
    dtype = draw(st.sampled_from(["float32", "float64", "float64"]))
    N, H, Tn = draw(st.integers(1, 5)), draw(st.integers(1, 4)), draw(st.integers(2, 8))
    scale = draw(st.sampled_from(["mixed", "unit", "prices"]))
    if scale == "mixed":
        el_s = el_u = real_elements(dtype)
    elif scale == "unit":
        el_s = el_u = st.one_of(st.integers(-3, 3).map(float), st.sampled_from([0.0, 0.5, -0.5, 1.0]))
    else:
        from ..gens import fl
        el_s = st.one_of(fl(0.5, 2.0, dtype), st.sampled_from([1.0, 1.0, 1.25]))
        el_u = st.one_of(fl(-1.0, 1.0, dtype), st.sampled_from([0.0, 0.5, 0.5, 1.0]))
    spot = draw(nested((N, H, Tn), el_s))
    unit = draw(nested((N, H, Tn), el_u))
    cost_kind = draw(st.sampled_from(["none", "zero", "dyadic", "decimal", "decimal", "mixed-zero"]))
    if cost_kind == "none":
        cost = None
    elif cost_kind == "zero":
        cost = [0.0] * H
    elif cost_kind == "dyadic":
        cost = [draw(st.integers(0, 2 ** 15)) * 2.0 ** -16 for _ in range(H)]
    elif cost_kind == "mixed-zero":  # some instruments are frictionless, others are not
        cost = [draw(st.sampled_from([0.0, 0.0, 0.01, 0.05, 1e-3])) for _ in range(H)]
    else:
        cost = [draw(st.sampled_from([1e-4, 1e-3, 5e-4, 0.01, 0.1, 0.25, 0.003])) for _ in range(H)]
    payoff = draw(st.one_of(st.none(), nested((N,), real_elements(dtype))))
    return {"dtype": dtype, "spot": spot, "unit": unit, "cost": cost, "payoff": payoff,
            "first": draw(st.booleans()), "alias": draw(st.booleans()),
            "first_default": draw(st.booleans())}


def _nontrivial_cost(spot, unit, cost):
    """cost>0 on an instrument whose price and position both vary along some path."""
    if cost is None:
        return False, False
    ok, multi = False, 0
    for h, c in enumerate(cost):
        if c <= 0:
            continue
        for n in range(len(spot)):
            if len(set(spot[n][h])) > 1 and len(set(unit[n][h])) > 1:
                ok = True
                multi += 1
                break
    return ok, (multi >= 2 and len(set(cost)) >= 2)


def compare_pl(ctx, label, got: torch.Tensor, spot, unit, cost, payoff, first, dtype, H, Tn):
    if not ctx.check(tuple(got.shape) == (len(spot),), label + "/shape", f"shape {tuple(got.shape)} != ({len(spot)},)"):
        return
    if not ctx.check(got.dtype == DTYPES[dtype], label + "/dtype", f"dtype {got.dtype} != {dtype}"):
        return
    cost_used = None if cost is None else [round_to(c, dtype) for c in cost]
    want, mag = pl_exact(spot, unit, cost_used, payoff, first)
    eps = EPS[dtype]
    for n, (w, a) in enumerate(zip(want, mag)):
        g = got[n].item()
        if g != g or g in (float("inf"), float("-inf")):
            # float overflow of an intermediate is possible only beyond the generated magnitudes
            ctx.fail(label + "/value", f"non-finite P&L {g} on path {n}", want=float(w))
            return
        # relative forward bound + underflow allowance (each product may lose one subnormal quantum)
        tol = Fr((4 * H * Tn + 8) * eps) * a + (4 * H * Tn + 8) * Fr(SUBNORMAL[dtype])
        err = abs(Fr(g) - w)
        if err > tol:
            ctx.fail(label + "/value", f"path {n}: got {g!r}, exact {float(w)!r}, err {float(err):.3e} > tol {float(tol):.3e}",
                     path=n, got=g, want=float(w))
            return


def check_pl(case, ctx):
    from pfhedge.nn.functional import pl, terminal_value

    dtype = case["dtype"]
    spot = torch.tensor(case["spot"], dtype=DTYPES[dtype])
    unit = torch.tensor(case["unit"], dtype=DTYPES[dtype])
    payoff = None if case["payoff"] is None else torch.tensor(case["payoff"], dtype=DTYPES[dtype])
    N, H, Tn = spot.shape
    fn = terminal_value if case["alias"] else pl
    kw = {}
    first = case["first"]
    if case["first_default"]:
        first = True  # documented default: the opening trade is charged
    else:
        kw["deduct_first_cost"] = first
    s0, u0 = spot.clone(), unit.clone()
    with ctx.sut("C01/pl"):
        got = fn(spot=spot, unit=unit, cost=case["cost"], payoff=payoff, **kw)
    compare_pl(ctx, "C01/pl", got, case["spot"], case["unit"], case["cost"], case["payoff"], first, dtype, H, Tn)
    ctx.check(torch.equal(spot, s0) and torch.equal(unit, u0), "C01/pl/mutates", "pl modified its arguments")
    nt, multi = _nontrivial_cost(case["spot"], case["unit"], case["cost"])
    ctx.nontrivial(nt)
    ctx.cls("dtype:" + dtype, "cost:" + ("none" if case["cost"] is None else "some"),
            "first:" + str(first), "payoff:" + str(case["payoff"] is not None), "H:%d" % H)
    if multi:
        ctx.cls("nontrivial:H>=2-distinct-rates")


@st.composite
def shape_error_case(draw):
    N, H, Tn = draw(st.integers(1, 4)), draw(st.integers(1, 3)), draw(st.integers(2, 6))
    kind = draw(st.sampled_from(["unit_T", "unit_H", "unit_N", "payoff_N", "payoff_2d"]))
    return {"N": N, "H": H, "T": Tn, "kind": kind, "d": draw(st.integers(1, 2))}


def check_shape_errors(case, ctx):
    from pfhedge.nn.functional import pl

    N, H, Tn, d = case["N"], case["H"], case["T"], case["d"]
    spot = torch.ones(N, H, Tn)
    unit = torch.ones(N, H, Tn)
    payoff = torch.zeros(N)
    k = case["kind"]
    if k == "unit_T":
        unit = torch.ones(N, H, Tn + d)
    elif k == "unit_H":
        unit = torch.ones(N, H + d, Tn)
    elif k == "unit_N":
        unit = torch.ones(N + d, H, Tn)
    elif k == "payoff_N":
        payoff = torch.zeros(N + d)
    elif k == "payoff_2d":
        payoff = torch.zeros(N, 1)
    ctx.expect_raises("C01/pl/shape-error-accepted", (RuntimeError,), lambda: pl(spot, unit, payoff=payoff))
    ctx.nontrivial(True)
    ctx.cls("kind:" + k)


# ------------------------------------------------------------------------------------- B
def check_hedger(case, ctx):
    objs = build_scenario(case)
    deriv, hedger = objs["derivative"], objs["hedger"]
    hedge = objs["hedge"]
    with ctx.sut("C01/hedger/simulate"):
        simulate(case, objs)
    hl = hedge_list(objs)
    dtype_name = {torch.float32: "float32", torch.float64: "float64"}[objs["dtype"]]
    # the identity holds in every mode a user evaluates it in: with/without autograd, train/eval
    grad_on = case["sim_seed"] % 2 == 1
    hedger.train(case["model_seed"] % 2 == 0)
    with torch.set_grad_enabled(grad_on):
        with ctx.sut("C01/hedger/compute"):
            pl_got = hedger.compute_pl(deriv, hedge=hedge).detach()
            pf_got = hedger.compute_portfolio(deriv, hedge=hedge).detach()
            unit = hedger.compute_hedge(deriv, hedge=hedge).detach()
            spot = torch.stack([h.spot for h in hl], dim=1).detach()
            payoff = deriv.payoff().detach()
    if not torch.isfinite(unit).all() or not torch.isfinite(spot).all() or not torch.isfinite(payoff).all():
        ctx.cls("skipped:non-finite-hedge")  # totality is C18's subject
        return
    H, Tn = spot.shape[1], spot.shape[2]
    ctx.check(tuple(unit.shape) == tuple(spot.shape), "C01/hedger/hedge-shape", f"hedge {tuple(unit.shape)} vs spot {tuple(spot.shape)}")
    costs = [h.cost for h in hl]
    sp, un, pay = spot.tolist(), unit.tolist(), payoff.tolist()
    compare_pl(ctx, "C01/hedger/compute_pl", pl_got, sp, un, costs, pay, True, dtype_name, H, Tn)
    compare_pl(ctx, "C01/hedger/compute_portfolio", pf_got, sp, un, costs, None, True, dtype_name, H, Tn)
    # the (deprecated but public) one-call form simulates and evaluates the same identity
    if case["model"] not in ("recurrent",) and case["sim_seed"] % 4 == 0:
        with torch.no_grad():
            with ctx.sut("C01/hedger/compute_pnl"):
                torch.manual_seed(case["sim_seed"])
                pnl = hedger.compute_pnl(deriv, hedge=hedge, n_paths=case["n_paths"])
                again = hedger.compute_pl(deriv, hedge=hedge)
        same = pnl.shape == again.shape and bool(((pnl == again) | (pnl.isnan() & again.isnan())).all())
        ctx.check(same and pnl.shape == pl_got.shape and bool(((pnl == pl_got) | (pnl.isnan() & pl_got.isnan())).all()), "C01/hedger/compute_pnl",
                  "compute_pnl(n_paths, seed) differs from simulate(seed) followed by compute_pl")
        ctx.cls("compute_pnl:checked")
    nt, multi = _nontrivial_cost(sp, un, costs)
    ctx.nontrivial(nt)
    ctx.cls("model:" + case["model"], "deriv:" + case["deriv"]["type"], "ul:" + case["ul"]["type"],
            "hedge:" + case["hedge"], "dtype:" + dtype_name, "grad:" + str(grad_on))
    if multi:
        ctx.cls("nontrivial:H>=2-distinct-rates")


SUBS = [
    Sub("pl_functional", check_pl,
        rule="Hypothesis draws (N<=5,H<=4,T<=8) spot/unit/payoff tensors from a mixture (small ints, zeros, repeats, "
             "scales 1e-3..1e6), cost None/zero/dyadic/decimal per instrument, first-cost flag, pl/terminal_value; "
             "oracle = exact Fraction evaluation of the wealth identity. Non-trivial: some instrument has cost>0 and "
             "both its price and its position vary along a path (so the traded price index is observable).",
        strategy=lambda tier: pl_case(), examples={"quick": 8000, "thorough": 80000}),
    Sub("pl_shape_errors", check_shape_errors,
        rule="mismatched unit / payoff shapes must raise RuntimeError; every generated case is non-trivial",
        strategy=lambda tier: shape_error_case(), examples={"quick": 200, "thorough": 1000}),
    Sub("hedger", check_hedger,
        rule="Hypothesis draws derivative x underlier x hedge list (default, [ul], [ul, listed...], [listed varswap]) x "
             "model (Linear/MLP/Naked/BlackScholes/WhalleyWilmott/recurrent) x costs x n_paths<=8 x 2..8 steps, simulates "
             "with a drawn torch seed; compute_pl / compute_portfolio compared with the exact identity on stack(h.spot), "
             "compute_hedge, [h.cost], payoff (resp. 0). Non-trivial as in pl_functional.",
        strategy=lambda tier: scenario(), examples={"quick": 3200, "thorough": 32000}),
]

META = {
    "technique": "property-based testing: Hypothesis-generated tensors and hedging scenarios vs exact rational (Fraction) evaluation of the wealth identity",
    "level_text": "Exploration: thousands of generated (spot, unit, cost, payoff, flag) tensors and generated derivative x hedge-list x model scenarios per run, every path compared with an exact rational oracle at a rounding-error tolerance; mutants of every term of the identity are caught (mutants/results.json).",
}
