"""C02 - Hedges are non-anticipative and never trade at maturity."""
import torch
from hypothesis import strategies as st

from ..core import Sub
from ..gens import OPTIONS, STOCKS, build_derivative, build_primary, build_scenario, hedge_list, scenario, seed_s, simulate

PROPERTY_ID = "C02"
ASSUMPTIONS = [
    "perturbation = every buffer of every underlier multiplied by U(0.5,2) and shifted by +0.01 at columns > t (keeps prices/variances positive)",
    "bitwise comparison with NaN==NaN (log features of a negative Vasicek rate are NaN before and after)",
    "'empty' feature is not generated: its content is documented as uninitialised",
]

PATH_STAT = {"max_moneyness", "max_log_moneyness", "__barrier_up", "__barrier_down"}
VOL = {"volatility", "variance"}


@st.composite
def c02_case(draw):
    sc = draw(scenario(min_steps=3, max_steps=9, max_paths=5, long_horizon=40))
    if sc["model"] in ("linear", "mlp", "recurrent") and draw(st.integers(0, 2)) == 0:
        # features asked of a contract / an underlier outside the family that documents them (option features of a variance swap,
        # the volatility of an interest rate): used wherever the library offers them (probed at run time)
        pool = (["moneyness", "log_moneyness", "max_moneyness", "time_to_maturity"] if sc["deriv"]["type"] not in OPTIONS else []) + \
            (["volatility", "variance"] if sc["ul"]["type"] not in STOCKS else [])
        if pool:
            sc["probe"] = draw(st.lists(st.sampled_from(pool), min_size=1, max_size=2, unique=True))
    if sc["ul"]["type"] == "VasicekRate":
        # logs of a possibly negative rate are NaN from the start; keep the comparison meaningful
        sc["inputs"] = [f for f in sc["inputs"] if "log" not in f] or ["underlier_spot"]
    sc["pert_seed"] = draw(seed_s)
    sc["grad"] = draw(st.booleans())  # training evaluates the hedge with gradients enabled
    return sc


def fname(f) -> str:
    try:
        return str(f)
    except AttributeError:  # Barrier defines no name
        return type(f).__name__


def same(a: torch.Tensor, b: torch.Tensor) -> bool:
    if a.shape != b.shape or a.dtype != b.dtype:
        return False
    return bool(((a == b) | (a.isnan() & b.isnan())).all())


def perturb_future(uls, t, gen):
    """Overwrite all buffers of all underliers at columns > t; returns the originals."""
    saved = []
    for ul in uls:
        for name, buf in list(ul.named_buffers()):
            saved.append((ul, name, buf))
            new = buf.clone()
            fut = new[:, t + 1:]
            factor = torch.rand(fut.shape, generator=gen, dtype=torch.float64) * 1.5 + 0.5
            new[:, t + 1:] = (fut.double() * factor + 0.01).to(new.dtype)
            ul.register_buffer(name, new)
    return saved


def restore(saved):
    for ul, name, buf in saved:
        ul.register_buffer(name, buf)


def offered(case, ctx):
    """The probed feature names this derivative type offers (AttributeError = not offered, as on the reference tree)."""
    from pfhedge.features import get_feature

    ul = build_primary(case["ul"])
    d = build_derivative(case["deriv"], ul)
    torch.manual_seed(0)
    d.simulate(n_paths=1)
    ok = []
    for name in case["probe"]:
        try:
            get_feature(name).of(d).get(None)
            ok.append(name)
        except AttributeError:
            ctx.exclude("feature-not-offered-for-this-derivative")
    return ok


def check_nonanticipative(case, ctx):
    if case.get("probe"):
        extra = [n for n in offered(case, ctx) if n not in case["inputs"]]
        keep = [f for f in case["inputs"] if f != "prev_hedge"]
        case = dict(case, inputs=keep + extra + (["prev_hedge"] if "prev_hedge" in case["inputs"] else []))
        ctx.cls("probed-features-offered:%d" % len(extra))
    objs = build_scenario(case)
    deriv, hedger, hedge = objs["derivative"], objs["hedger"], objs["hedge"]
    with ctx.sut("C02/simulate"):
        simulate(case, objs)
    uls = list(deriv.underliers())
    gen = torch.Generator().manual_seed(case["pert_seed"])
    with torch.set_grad_enabled(bool(case.get("grad", False))):
        with ctx.sut("C02/compute_hedge"):
            H0 = hedger.compute_hedge(deriv, hedge=hedge).detach()
        N, Hn, Tn = H0.shape
        spot_shape = hedge_list(objs)[0].spot.shape
        ctx.check((N, Tn) == tuple(spot_shape), "C02/shape", f"hedge shape {tuple(H0.shape)} vs spot {tuple(spot_shape)}")
        # clause 2: position at the final index equals the one held over the last step
        ctx.check(same(H0[..., -1], H0[..., -2]), "C02/trade-at-maturity",
                  "hedge at the final time index differs from the position held over the last step",
                  last=H0[..., -1], prev=H0[..., -2])
        feats = hedger.inputs.of(deriv, hedger)
        indep = [f for f in feats.features if not f.is_state_dependent()]
        f0 = []
        for f in indep:
            with ctx.sut("C02/feature/" + fname(f)):
                f0.append(f.get(None).detach())
        changed_later = False
        cuts = range(0, Tn - 1) if Tn <= 12 else sorted({0, 1, Tn // 2, 254, 255, 256, Tn - 3, Tn - 2})  # long paths: a sample of cuts
        for t in cuts:
            saved = perturb_future(uls, t, gen)
            try:
                with ctx.sut("C02/compute_hedge"):
                    H1 = hedger.compute_hedge(deriv, hedge=hedge).detach()
                if not same(H1[..., : t + 1], H0[..., : t + 1]):
                    bad = (~((H1[..., : t + 1] == H0[..., : t + 1]) | (H1[..., : t + 1].isnan() & H0[..., : t + 1].isnan()))).nonzero()[0].tolist()
                    ctx.fail("C02/anticipates", f"hedge for steps 0..{t} changed when data at steps > {t} was perturbed "
                             f"(first differing [path, instrument, step] = {bad})", cut=t)
                    return
                if t + 1 < Tn - 1 and not same(H1[..., t + 1: Tn - 1], H0[..., t + 1: Tn - 1]):
                    changed_later = True
                for f, g0 in zip(indep, f0):
                    with ctx.sut("C02/feature/" + fname(f)):
                        g1 = f.get(None).detach()
                        g1t = f.get(t).detach()
                    if not same(g1[:, : t + 1], g0[:, : t + 1]):
                        ctx.fail("C02/feature-anticipates", f"feature {fname(f)} get(None)[:, :{t + 1}] depends on later data", cut=t, feature=fname(f))
                        return
                    if not same(g1t, g0[:, [t]]) and not _close(g1t, g0[:, [t]]):
                        ctx.fail("C02/feature-anticipates", f"feature {fname(f)} get({t}) depends on later data", cut=t, feature=fname(f))
                        return
            finally:
                restore(saved)
    names = set(map(str, case["inputs"]))
    ctx.nontrivial(changed_later)
    ctx.cls("grad:" + str(bool(case.get("grad", False))), "branch:" + ("stepwise" if feats.is_state_dependent() else "vectorised"), "model:" + case["model"],
            "deriv:" + case["deriv"]["type"], "ul:" + case["ul"]["type"], "steps:" + ("long" if Tn > 12 else "short"))
    if names & PATH_STAT or case["model"] in ("bs", "ww") and case["deriv"]["type"] in ("LookbackOption", "AmericanBinaryOption"):
        ctx.cls("feature:path-statistic")
    if names & VOL or case["model"] in ("bs", "ww"):
        ctx.cls("feature:vol/var")
    for n in names:
        ctx.cls("input:" + n)


def _close(a, b):
    # get(t) and get(None)[:, [t]] may differ in the last bits (C03's subject); here only dependence matters
    return bool(torch.allclose(a, b, rtol=1e-5, atol=1e-7, equal_nan=True))


META = {
    "technique": "property-based testing: metamorphic relation (perturb every future buffer column, hedge prefix must be bitwise unchanged) over Hypothesis-generated hedging scenarios",
    "level_text": "Exploration: for each generated derivative x underlier x feature set x model scenario and EVERY cut t, all buffers at columns > t are overwritten and the hedge (and each state-independent feature) for steps <= t must be bitwise unchanged; last two hedge columns must be bitwise equal. Both evaluation branches are exercised and counted.",
}

SUBS = [
    Sub("nonanticipative", check_nonanticipative,
        rule="Hypothesis scenario (6 derivative types x 8 underliers x registered features + Barrier/Ones/log-spot/"
             "ModuleOutput + prev_hedge x Linear/MLP/Naked/BlackScholes/WhalleyWilmott/recurrent user model, 3..9 steps, "
             "1..5 paths, drawn torch seeds). Non-trivial: some perturbation changed a hedge column AFTER the cut "
             "(the model really reads the perturbed data).",
        strategy=lambda tier: c02_case(), examples={"quick": 3200, "thorough": 32000}),
]
