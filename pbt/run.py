"""CLI and orchestration: sharded generation, collect-then-shrink, known findings, evidence."""
import argparse
import importlib
import json
import math
import multiprocessing as mp
import os
import sys
import time
import traceback
from typing import Any, Dict, List

from .core import (
    VERIF_DIR,
    Abort,
    Recorder,
    Sub,
    canon,
    case_hash,
    load_known_findings,
    run_case,
)

ALL_IDS = ["C%02d" % i for i in range(1, 21)]


def load_module(pid: str):
    return importlib.import_module("pbt.props." + pid.lower())


def _settings(n: int, shrink: bool = False):
    from hypothesis import HealthCheck, Phase, settings

    return settings(
        max_examples=max(1, n),
        database=None,
        deadline=None,
        derandomize=False,
        report_multiple_bugs=False,
        phases=[Phase.generate, Phase.shrink] if shrink else [Phase.generate],
        suppress_health_check=[HealthCheck.too_slow, HealthCheck.data_too_large, HealthCheck.large_base_example],
        verbosity=__import__("hypothesis").Verbosity.quiet,
    )


def _active_known(pid: str) -> List[str]:
    return [f["id"] for f in load_known_findings() if f["property"] == pid and f["status"] == "known"]


def sub_seed(seed: int, shard: int, idx: int) -> int:
    return (seed * 1000 + shard) * 100 + idx


def drive_sub(mod, sub: Sub, idx: int, tier: str, seed: int, shard: int, nshards: int, scale: float) -> dict:
    """Run one sub-check in one shard; returns the recorder as JSON."""
    from hypothesis import given
    from hypothesis import seed as hseed

    rec = Recorder(sub.name)
    known = getattr(mod, "KNOWN", {})
    active = _active_known(mod.PROPERTY_ID)
    t0 = time.time()
    cap = sub.time_cap[tier] * max(1.0, scale)
    if sub.serial and shard != 0:
        return rec.to_json()
    if sub.enumerate is not None:
        for i, case in enumerate(sub.enumerate(tier)):
            if not sub.serial and i % nshards != shard:
                continue
            if time.time() - t0 > cap:
                rec.skipped_by_time += 1
                continue
            run_case(sub, case, rec, known, active)
    if sub.strategy is not None:
        total = int(math.ceil(sub.examples[tier] * scale))
        n = total if sub.serial else int(math.ceil(total / nshards))

        @hseed(sub_seed(seed, shard, idx))
        @_settings(n)
        @given(sub.strategy(tier))
        def test(case):
            if time.time() - t0 > cap:
                rec.skipped_by_time += 1
                return
            run_case(sub, case, rec, known, active)

        test()
    rec.wall_s = time.time() - t0
    return rec.to_json()


def worker(args) -> dict:
    pid, tier, seed, shard, nshards, scale, only = args
    try:
        import torch

        torch.set_num_threads(1)
        mod = load_module(pid)
        out = {}
        for idx, sub in enumerate(mod.SUBS):
            if only and sub.name not in only:
                continue
            out[sub.name] = drive_sub(mod, sub, idx, tier, seed, shard, nshards, scale)
        return {"ok": True, "shard": shard, "subs": out}
    except BaseException:  # noqa: BLE001 - report to the parent as a harness error
        return {"ok": False, "shard": shard, "error": traceback.format_exc()}


def shrink_bucket(mod, sub: Sub, idx: int, tier: str, seed: int, shard: int, nshards: int, scale: float,
                  label: str, budget_s: float):
    """Second Hypothesis run whose assertion is "no unlisted violation with this label"."""
    from hypothesis import given
    from hypothesis import seed as hseed

    if sub.strategy is None:
        return None
    known = getattr(mod, "KNOWN", {})
    active = _active_known(mod.PROPERTY_ID)
    total = int(math.ceil(sub.examples[tier] * scale))
    n = total if sub.serial else int(math.ceil(total / nshards))
    state = {"last": None, "t0": time.time()}

    @hseed(sub_seed(seed, shard, idx))
    @_settings(n, shrink=True)
    @given(sub.strategy(tier))
    def test(case):
        if time.time() - state["t0"] > budget_s:
            return
        scratch = Recorder(sub.name)
        vs = run_case(sub, case, scratch, known, active)
        hit = [v for v in vs if v["label"] == label]
        if hit:
            state["last"] = {"case": case, "msg": hit[0]["msg"], "detail": hit[0]["detail"]}
            raise AssertionError(label)

    try:
        test()
    except BaseException:  # noqa: BLE001 - AssertionError (expected), Flaky after the time budget, ...
        pass
    return state["last"]


def run_fuzz_campaigns(mod, pid, tier, seed, jobs, only, results):
    """Coverage-guided campaigns (atheris) for the sub-checks that ask for one in this tier; results are appended to
    ``results`` as extra shards. Returns a summary for the evidence (None when nothing ran)."""
    import shutil
    import subprocess
    import tempfile

    subs = [s for s in mod.SUBS if s.strategy is not None and s.fuzz.get(tier, 0) > 0 and (not only or s.name in only)]
    if not subs:
        return None
    deps = os.path.join(VERIF_DIR, ".deps")
    env = dict(os.environ, PYTHONPATH=deps + os.pathsep + os.environ.get("PYTHONPATH", ""))
    if subprocess.run([sys.executable, "-c", "import atheris"], env=env, capture_output=True).returncode != 0:
        subprocess.run([sys.executable, "-m", "pip", "install", "-q", "--no-index", "--find-links", "/opt/veriftools/wheels",
                        "--target", deps, "atheris"], capture_output=True)
        if subprocess.run([sys.executable, "-c", "import atheris"], env=env, capture_output=True).returncode != 0:
            return {"skipped": "atheris not installable from the wheelhouse"}
    work = tempfile.mkdtemp(prefix="verif_fuzz_")
    info = {"engine": "atheris/libFuzzer driving hypothesis fuzz_one_input", "campaigns": []}
    try:
        workers = max(1, min(4, jobs // max(1, len(subs))))
        procs = []
        for s in subs:
            for w in range(workers):
                out = os.path.join(work, f"{s.name}.{w}.json")
                cmd = [sys.executable, "-m", "pbt.fuzz", pid, s.name, str(s.fuzz[tier]), str(seed * 100 + w + 1), out,
                       os.path.join(work, f"corpus_{s.name}_{w}")]
                procs.append((s, w, out, subprocess.Popen(cmd, env=env, stdout=subprocess.DEVNULL, stderr=subprocess.DEVNULL, cwd=VERIF_DIR)))
        for s, w, out, p in procs:
            try:
                p.wait(timeout=s.fuzz[tier] * 3 + 300)
            except subprocess.TimeoutExpired:
                p.kill()
            if not os.path.exists(out):
                info["campaigns"].append({"sub": s.name, "worker": w, "error": "no output", "exit": p.returncode})
                continue
            d = json.load(open(out))
            if d.get("harness_error"):
                results.append({"ok": False, "shard": f"fuzz:{s.name}:{w}", "error": d["harness_error"]})
                continue
            info["campaigns"].append({"sub": s.name, "worker": w, "libfuzzer_executions": d["fuzz_execs"], "cases_evaluated": d["evaluations"],
                                      "distinct_cases": len(d["all_hashes"]), "seconds": round(d["fuzz_seconds"], 1)})
            results.append({"ok": True, "shard": 1000 + w, "subs": {s.name: d}})
    finally:
        shutil.rmtree(work, ignore_errors=True)
    return info


def save_replay(pid: str, sub: str, label: str, entry: dict, shrunk: bool, seed: int) -> str:
    d = os.path.join(os.environ.get("VERIF_REPLAY_DIR") or os.path.join(VERIF_DIR, "replays"), pid)
    os.makedirs(d, exist_ok=True)
    safe = label.replace("/", "_")
    path = os.path.join(d, f"{safe}-{case_hash(entry['case'])}.json")
    with open(path, "w") as f:
        json.dump(
            {"property": pid, "sub": sub, "label": label, "message": entry["msg"], "detail": entry.get("detail"),
             "shrunk": shrunk, "seed": seed, "case": entry["case"]},
            f, indent=1, sort_keys=True)
    return os.path.relpath(path, VERIF_DIR)


def replay_file(mod, path: str):
    """Returns (unlisted violations, known ids matched)."""
    with open(path) as f:
        data = json.load(f)
    subs = {s.name: s for s in mod.SUBS}
    if data["sub"] not in subs:
        raise RuntimeError(f"replay {path}: unknown sub {data['sub']}")
    rec = Recorder(data["sub"])
    vs = run_case(subs[data["sub"]], data["case"], rec, getattr(mod, "KNOWN", {}), _active_known(mod.PROPERTY_ID))
    return vs, dict(rec.known)


def committed_replays(mod, pid: str, out_lines: List[str]):
    """Re-run committed known-finding / fixed / regression replays. Returns (#violation lines, info)."""
    n_viol = 0
    info = {"known_reproduced": [], "known_not_reproduced": [], "regressions_run": 0}
    for f in load_known_findings():
        if f["property"] != pid or not f.get("replay"):
            continue
        path = os.path.join(VERIF_DIR, f["replay"])
        vs, known = replay_file(mod, path)
        if f["status"] == "known":
            if known.get(f["id"]):
                out_lines.append(f"KNOWN-FINDING: property={pid} {f['id']} {f['what']}")
                info["known_reproduced"].append(f["id"])
            else:
                info["known_not_reproduced"].append(f["id"])
                out_lines.append(f"note: known finding {f['id']} no longer reproduces on this tree")
            if vs:  # something else fails on the known replay
                n_viol += 1
                out_lines.append(f"VIOLATION property={pid} replay={f['replay']}")
        else:  # fixed: suppresses nothing, must stay repaired
            info["regressions_run"] += 1
            if vs:  # (violations attributed to a *listed* known finding on the same case do not count against the fix)
                n_viol += 1
                out_lines.append(f"VIOLATION property={pid} replay={f['replay']}")
    d = os.path.join(VERIF_DIR, "known", pid)
    if os.path.isdir(d):
        listed = {os.path.normpath(f.get("replay", "")) for f in load_known_findings()}
        for name in sorted(os.listdir(d)):
            rel = os.path.normpath(os.path.join("known", pid, name))
            if not name.endswith(".json") or rel in listed:
                continue
            info["regressions_run"] += 1
            vs, _ = replay_file(mod, os.path.join(VERIF_DIR, rel))
            if vs:
                n_viol += 1
                out_lines.append(f"VIOLATION property={pid} replay={rel}")
    return n_viol, info


def main(argv=None) -> int:
    ap = argparse.ArgumentParser()
    ap.add_argument("pid", nargs="?")
    ap.add_argument("tier", nargs="?", default=os.environ.get("VERIF_TIER", "quick"))
    ap.add_argument("--replay")
    ap.add_argument("--list", action="store_true")
    ap.add_argument("--only", action="append", help="run only this sub-check (debugging)")
    ap.add_argument("--no-evidence", action="store_true")
    a = ap.parse_args(argv)

    if a.list:
        for pid in ALL_IDS:
            try:
                mod = load_module(pid)
                print(pid, [s.name for s in mod.SUBS])
            except ModuleNotFoundError:
                print(pid, "-")
        return 0
    pid = a.pid
    if pid not in ALL_IDS:
        print("harness error: unknown property", pid)
        return 2
    seed = int(os.environ.get("VERIF_SEED", "1"))
    jobs = int(os.environ.get("VERIF_JOBS", str(os.cpu_count() or 1)))
    scale = float(os.environ.get("VERIF_SCALE", "1"))
    t0 = time.time()
    try:
        import torch

        torch.set_num_threads(1)
        mod = load_module(pid)
    except BaseException:  # noqa: BLE001
        print("harness error: cannot import property module or pfhedge")
        traceback.print_exc()
        return 2

    if a.replay:
        try:
            vs, known = replay_file(mod, a.replay)
        except BaseException:  # noqa: BLE001
            traceback.print_exc()
            return 2
        for k in known:
            print(f"KNOWN-FINDING: property={pid} {k} (replay {a.replay})")
        for v in vs:
            print("violation:", v["label"], v["msg"])
        if vs:
            print(f"VIOLATION property={pid} replay={a.replay}")
            return 1
        print(f"replay passes: {a.replay}")
        return 0

    tier = a.tier
    if tier not in ("quick", "thorough"):
        print("harness error: tier must be quick or thorough")
        return 2

    lines: List[str] = []
    try:
        n_viol, kinfo = committed_replays(mod, pid, lines)
    except BaseException:  # noqa: BLE001
        print("harness error while running committed replays")
        traceback.print_exc()
        return 2

    nshards = max(1, jobs)
    tasks = [(pid, tier, seed, s, nshards, scale, a.only) for s in range(nshards)]
    if nshards == 1:
        results = [worker(tasks[0])]
    else:
        ctx = mp.get_context("spawn")
        with ctx.Pool(nshards) as pool:
            results = pool.map(worker, tasks, chunksize=1)
    bad = [r for r in results if not r["ok"]]
    if bad:
        print("harness error in worker shard(s):", [r["shard"] for r in bad])
        print(bad[0]["error"])
        return 2

    fuzz_info = run_fuzz_campaigns(mod, pid, tier, seed, jobs, a.only, results)
    bad = [r for r in results if not r["ok"]]
    if bad:
        print("harness error in coverage-guided campaign:", [r["shard"] for r in bad])
        print(bad[0]["error"])
        return 2

    recs: Dict[str, Recorder] = {}
    first_shard: Dict[tuple, int] = {}
    for r in sorted(results, key=lambda r: (not isinstance(r["shard"], int), str(r["shard"]) if not isinstance(r["shard"], int) else r["shard"])):
        for name, d in r["subs"].items():
            recs.setdefault(name, Recorder(name)).merge_json(d)
            for label in d["violations"]:
                first_shard.setdefault((name, label), r["shard"])

    # collect-then-shrink: one bucket per (sub, oracle label)
    buckets = [(name, label) for name, rec in recs.items() for label in rec.violations]
    shrink_budget = 45.0 if tier == "quick" else 240.0
    max_shrunk = 4
    subs_by_name = {s.name: (i, s) for i, s in enumerate(mod.SUBS)}
    replay_paths = []
    for bi, (name, label) in enumerate(sorted(buckets)):
        idx, sub = subs_by_name[name]
        entry = recs[name].violations[label][0]
        # smallest recorded case as fallback
        entry = min(recs[name].violations[label], key=lambda e: len(canon(e["case"])))
        shrunk = None
        if bi < max_shrunk and first_shard[(name, label)] < 1000:  # cases found by the fuzzer have no Hypothesis seed
            try:
                shrunk = shrink_bucket(mod, sub, idx, tier, seed, first_shard[(name, label)], nshards, scale,
                                       label, shrink_budget)
            except BaseException:  # noqa: BLE001
                shrunk = None
        use = shrunk if shrunk is not None and len(canon(shrunk["case"])) <= len(canon(entry["case"])) else entry
        path = save_replay(pid, name, label, use, shrunk is not None and use is shrunk, seed)
        replay_paths.append(path)
        lines.append(f"violation: {label}: {use['msg']}  (count={recs[name].violation_counts[label]})")
        lines.append(f"VIOLATION property={pid} replay={path}")
        n_viol += 1

    wall = time.time() - t0
    evaluations = sum(r.evaluations for r in recs.values())
    distinct_nt = sum(len(r.nontrivial) for r in recs.values())
    samples = []
    for name, r in recs.items():
        for s in r.samples[:2]:
            samples.append({"sub": name, "case": s})
    coverage = {
        "evaluations": evaluations,
        "distinct_nontrivial": distinct_nt,
        "rule": " || ".join(f"[{s.name}] {s.rule}" for s in mod.SUBS if s.name in recs),
        "samples": samples[:12],
        "distinct_cases": sum(len(r.all_hashes) for r in recs.values()),
        "exhaustive": all(s.exhaustive for s in mod.SUBS if s.name in recs) and all(r.skipped_by_time == 0 for r in recs.values()),
        "subchecks": {
            name: {
                "evaluations": r.evaluations,
                "distinct_cases": len(r.all_hashes),
                "distinct_nontrivial": len(r.nontrivial),
                "classes": dict(sorted(r.classes.items())),
                "excluded_by_construction": dict(r.excluded),
                "attributed_to_known_findings": dict(r.known),
                "unlisted_violation_counts": dict(r.violation_counts),
                "skipped_by_time_budget": r.skipped_by_time,
                "exhaustive": subs_by_name[name][1].exhaustive and r.skipped_by_time == 0,
                "wall_s": round(r.wall_s, 2),
            }
            for name, r in recs.items()
        },
        "known_findings": kinfo,
        "coverage_guided_fuzzing": fuzz_info,
        "replays_written": replay_paths,
        "shards": nshards,
        "engine": "hypothesis " + __import__("hypothesis").__version__,
        "repo": os.environ.get("VERIF_REPO", "/repo"),
    }
    evidence = {
        "property_id": pid,
        "tier": tier,
        "seed": seed,
        "level": getattr(mod, "LEVEL", "exploration"),
        "coverage": coverage,
        "assumptions": list(getattr(mod, "ASSUMPTIONS", [])),
        "wall_s": round(wall, 2),
        "violations": n_viol,
    }
    if not a.no_evidence and not a.only:
        os.makedirs(os.path.join(VERIF_DIR, "evidence"), exist_ok=True)
        with open(os.path.join(VERIF_DIR, "evidence", pid + ".json"), "w") as f:
            json.dump(evidence, f, indent=1, sort_keys=True)

    for ln in lines:
        print(ln)
    inconclusive = sum(r.skipped_by_time for r in recs.values())
    print(f"{pid} {tier} seed={seed}: evaluations={evaluations} distinct_nontrivial={distinct_nt} "
          f"violations={n_viol} skipped_by_time={inconclusive} wall={wall:.1f}s")
    for name, r in recs.items():
        print(f"  [{name}] eval={r.evaluations} nontrivial={len(r.nontrivial)} known={dict(r.known)} "
              f"excluded={dict(r.excluded)} viol={dict(r.violation_counts)} t={r.wall_s:.1f}s")
    return 1 if n_viol else 0


if __name__ == "__main__":
    try:
        rc = main()
    except SystemExit:
        raise
    except BaseException:  # noqa: BLE001
        traceback.print_exc()
        print("harness error")
        rc = 2
    sys.exit(rc)
