"""Batch independence of the Black-Scholes functional forms: the value at an element of a tensor argument must not depend on
what else is in the tensor ("any broadcastable tensor shapes" / "at every point").  Shared by C07 (prices, open domain),
C08 (Greeks, open domain) and C18 (prices and deltas, boundary elements mixed with interior ones)."""
import torch
from hypothesis import strategies as st

from ..gens import DTYPES, EPS, fl

PRICES = ["european_price(call)", "european_price(put)", "binary_price(call)", "binary_price(put)", "american_binary_price", "lookback_price"]
DELTAS = ["european_delta(call)", "european_delta(put)", "binary_delta(call)", "binary_delta(put)", "american_binary_delta"]
GREEKS = ["european_gamma", "european_vega", "european_theta", "binary_gamma(call)", "binary_vega(call)", "binary_theta(put)",
          "american_binary_gamma", "american_binary_vega", "american_binary_theta"]
AUTOGRAD = ["lookback_delta", "lookback_gamma", "lookback_vega", "lookback_theta"]


def call_positional(name, s, m, t, v, K):
    """The same calls with every argument given by position, in the order the documentation of the pinned release lists them
    (``bs_european_price(log_moneyness, time_to_maturity, volatility, strike=1.0, call=True)``, the binary forms
    ``(..., call=True, strike=1.0)``, the path-dependent forms ``(log_moneyness, max_log_moneyness, time_to_maturity,
    volatility, strike)``).  This table is part of the oracle: it is not read from the code under test."""
    import pfhedge.nn.functional as F

    return {
        "european_price(call)": lambda: F.bs_european_price(s, t, v, K),
        "european_price(put)": lambda: F.bs_european_price(s, t, v, K, False),
        "binary_price(call)": lambda: F.bs_european_binary_price(s, t, v, True),
        "binary_price(put)": lambda: F.bs_european_binary_price(s, t, v, False),
        "american_binary_price": lambda: F.bs_american_binary_price(s, m, t, v),
        "lookback_price": lambda: F.bs_lookback_price(s, m, t, v, K),
        "european_delta(call)": lambda: F.bs_european_delta(s, t, v, True),
        "european_delta(put)": lambda: F.bs_european_delta(s, t, v, False),
        "binary_delta(call)": lambda: F.bs_european_binary_delta(s, t, v, True, K),
        "binary_delta(put)": lambda: F.bs_european_binary_delta(s, t, v, False, K),
        "american_binary_delta": lambda: F.bs_american_binary_delta(s, m, t, v, K),
        "european_gamma": lambda: F.bs_european_gamma(s, t, v, K),
        "european_vega": lambda: F.bs_european_vega(s, t, v, K),
        "european_theta": lambda: F.bs_european_theta(s, t, v, K),
        "binary_gamma(call)": lambda: F.bs_european_binary_gamma(s, t, v, True, K),
        "binary_vega(call)": lambda: F.bs_european_binary_vega(s, t, v, True, K),
        "binary_theta(put)": lambda: F.bs_european_binary_theta(s, t, v, False, K),
        "american_binary_gamma": lambda: F.bs_american_binary_gamma(s, m, t, v, K),
        "american_binary_vega": lambda: F.bs_american_binary_vega(s, m, t, v, K),
        "american_binary_theta": lambda: F.bs_american_binary_theta(s, m, t, v, K),
        "lookback_delta": lambda: F.bs_lookback_delta(s.clone(), m, t, v, K),
        "lookback_gamma": lambda: F.bs_lookback_gamma(s.clone(), m, t, v, K),
        "lookback_vega": lambda: F.bs_lookback_vega(s.clone(), m, t, v, K),
        "lookback_theta": lambda: F.bs_lookback_theta(s.clone(), m, t, v, K),
    }[name]()


def call(name, s, m, t, v, K):
    import pfhedge.nn.functional as F

    return {
        "european_price(call)": lambda: F.bs_european_price(s, t, v, strike=K),
        "european_price(put)": lambda: F.bs_european_price(s, t, v, strike=K, call=False),
        "binary_price(call)": lambda: F.bs_european_binary_price(s, t, v),
        "binary_price(put)": lambda: F.bs_european_binary_price(s, t, v, call=False),
        "american_binary_price": lambda: F.bs_american_binary_price(s, m, t, v),
        "lookback_price": lambda: F.bs_lookback_price(s, m, t, v, strike=K),
        "european_delta(call)": lambda: F.bs_european_delta(s, t, v),
        "european_delta(put)": lambda: F.bs_european_delta(s, t, v, call=False),
        "binary_delta(call)": lambda: F.bs_european_binary_delta(s, t, v, strike=K),
        "binary_delta(put)": lambda: F.bs_european_binary_delta(s, t, v, call=False, strike=K),
        "american_binary_delta": lambda: F.bs_american_binary_delta(s, m, t, v, strike=K),
        "european_gamma": lambda: F.bs_european_gamma(s, t, v, strike=K),
        "european_vega": lambda: F.bs_european_vega(s, t, v, strike=K),
        "european_theta": lambda: F.bs_european_theta(s, t, v, strike=K),
        "binary_gamma(call)": lambda: F.bs_european_binary_gamma(s, t, v, strike=K),
        "binary_vega(call)": lambda: F.bs_european_binary_vega(s, t, v, strike=K),
        "binary_theta(put)": lambda: F.bs_european_binary_theta(s, t, v, call=False, strike=K),
        "american_binary_gamma": lambda: F.bs_american_binary_gamma(s, m, t, v, strike=K),
        "american_binary_vega": lambda: F.bs_american_binary_vega(s, m, t, v, strike=K),
        "american_binary_theta": lambda: F.bs_american_binary_theta(s, m, t, v, strike=K),
        "lookback_delta": lambda: F.bs_lookback_delta(s.clone(), m, t, v, strike=K),
        "lookback_gamma": lambda: F.bs_lookback_gamma(s.clone(), m, t, v, strike=K),
        "lookback_vega": lambda: F.bs_lookback_vega(s.clone(), m, t, v, strike=K),
        "lookback_theta": lambda: F.bs_lookback_theta(s.clone(), m, t, v, strike=K),
    }[name]()


@st.composite
def batch_case(draw, boundary: bool):
    dtype = draw(st.sampled_from(["float64", "float64", "float32"]))
    n = draw(st.integers(2, 7))
    s_el = st.one_of(st.sampled_from([0.0, 0.0, -0.1, 0.1, -0.3, 0.25, -0.0009765625]), fl(-1.0, 1.0, "float32"))
    dm_el = st.sampled_from([0.0, 0.0, 0.0625, 0.25, 0.5, 1.5])
    if boundary:
        t_el = st.sampled_from([0.0, 0.0, 0.1, 1.0, 1e-12, 0.25])
        v_el = st.sampled_from([0.0, 0.2, 0.2, 1e-12, 0.5])
    else:
        t_el = st.one_of(st.sampled_from([0.1, 1.0, 0.25, 2.0]), fl(0.01, 5.0, "float32"))
        v_el = st.one_of(st.sampled_from([0.2, 0.5, 0.05]), fl(0.01, 2.0, "float32"))
    pts = [{"s": draw(s_el), "dm": draw(dm_el), "t": draw(t_el), "v": draw(v_el)} for _ in range(n)]
    return {"dtype": dtype, "K": draw(st.sampled_from([1.0, 0.5, 2.0, 1.25])), "points": pts,
            "layout": draw(st.sampled_from(["vector", "column", "matrix"]))}


def check_batch(case, ctx, names, prefix, skip=None):
    """``skip(name, point)`` -> True for elements where the single value itself is a listed known finding."""
    dt = DTYPES[case["dtype"]]
    eps = EPS[case["dtype"]]
    K = case["K"]
    pts = case["points"]
    n = len(pts)
    s = torch.tensor([p["s"] for p in pts], dtype=dt)
    m = torch.tensor([p["s"] + p["dm"] for p in pts], dtype=dt)
    t = torch.tensor([p["t"] for p in pts], dtype=dt)
    v = torch.tensor([p["v"] for p in pts], dtype=dt)
    if case["layout"] == "column":
        shape = (n, 1)
    elif case["layout"] == "matrix" and n % 2 == 0:
        shape = (2, n // 2)
    else:
        shape = (n,)
    S, M, T_, V = (x.reshape(shape) for x in (s, m, t, v))
    mixed = len({(p["t"] == 0 or p["v"] == 0) for p in pts}) > 1 or len({p["s"] + p["dm"] >= 0 for p in pts}) > 1
    for name in names:
        with ctx.sut(prefix + "/batch/" + name):
            got = call(name, S, M, T_, V, K)
        if not ctx.check(tuple(got.shape) == shape, prefix + "/batch/shape", f"{name}: output shape {tuple(got.shape)} for arguments of shape {shape}"):
            continue
        got = got.detach().reshape(-1)
        # the documented positional form is the same function of the same arguments
        with ctx.sut(prefix + "/batch/" + name):
            pos = call_positional(name, S, M, T_, V, K).detach().reshape(-1)
        ctx.check(pos.shape == got.shape and bool(((pos == got) | (pos.isnan() & got.isnan())).all()), prefix + "/positional-arguments",
                  f"{name}: the call with positional arguments (documented order) differs from the call with keywords (K={K})", fn=name)
        for i in range(n):
            if skip is not None and skip(name, pts[i], case["dtype"]):
                ctx.exclude("known-finding-region")
                continue
            with ctx.sut(prefix + "/batch/" + name):
                one = call(name, s[i].clone(), m[i].clone(), t[i].clone(), v[i].clone(), K).detach().reshape(())
            a, b = got[i], one
            if bool(torch.isnan(a) and torch.isnan(b)):
                continue
            scale = max(1.0, abs(float(b)) if torch.isfinite(b) else 1.0)
            same = bool(a == b) or (bool(torch.isfinite(a)) and bool(torch.isfinite(b)) and abs(float(a) - float(b)) <= 16 * eps * scale)
            if not ctx.check(same, prefix + "/batch-dependence",
                             f"{name}: element {i} of a batch is {float(a)!r} but evaluated alone it is {float(b)!r} "
                             f"(s={pts[i]['s']!r}, max={pts[i]['s'] + pts[i]['dm']!r}, t={pts[i]['t']!r}, v={pts[i]['v']!r}, K={K}; batch of {n})",
                             fn=name, element=i):
                break
    ctx.nontrivial(mixed)
    ctx.cls("layout:" + case["layout"], "dtype:" + case["dtype"], "mixed:" + str(mixed))
