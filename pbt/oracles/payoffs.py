"""Independent oracles for contractual payoffs (C12) and the realised-variance helpers (C12, C20).

Everything is evaluated on the *float inputs* taken as exact rationals:

* option payoffs in ``fractions.Fraction`` with the comparisons exactly as the contracts read;
* realised variance ``mean((log S_{i+1}/S_i)^2)/dt`` in 40-digit ``mpmath`` together with an a-priori
  forward error bound of the float evaluation ``log -> diff -> square -> mean -> /dt``;
* a small non-commuting clause algebra with an exact (value, error bound) semantics.
"""
from fractions import Fraction as Fr
from typing import Any, Dict, List, Sequence, Tuple

import mpmath as mp

MP_DPS = 40


# ------------------------------------------------------------------------------ exact payoffs
def european(path: Sequence[float], call: bool, strike: float) -> Fr:
    sT, k = Fr(path[-1]), Fr(strike)
    return max(sT - k, Fr(0)) if call else max(k - sT, Fr(0))


def extreme(path: Sequence[float], call: bool) -> Fr:
    """The path extreme a lookback / American binary contract looks at: max for calls, min for puts."""
    vals = [Fr(x) for x in path]
    return max(vals) if call else min(vals)


def lookback(path: Sequence[float], call: bool, strike: float) -> Fr:
    e, k = extreme(path, call), Fr(strike)
    return max(e - k, Fr(0)) if call else max(k - e, Fr(0))


def european_binary(path: Sequence[float], call: bool, strike: float) -> Fr:
    sT, k = Fr(path[-1]), Fr(strike)
    hit = (sT >= k) if call else (sT <= k)
    return Fr(1) if hit else Fr(0)


def american_binary(path: Sequence[float], call: bool, strike: float) -> Fr:
    e, k = extreme(path, call), Fr(strike)
    hit = (e >= k) if call else (e <= k)
    return Fr(1) if hit else Fr(0)


def forward_start(path: Sequence[float], strike: float, start_index: int, end_index: int = -1) -> Tuple[Fr, Fr]:
    """(payoff, scale) with scale = max(ratio, |K|) used for the 4*eps tolerance."""
    ratio = Fr(path[end_index]) / Fr(path[start_index])
    k = Fr(strike)
    return max(ratio - k, Fr(0)), max(abs(ratio), abs(k))


EXACT = {
    "european": european,
    "lookback": lookback,
    "european_binary": european_binary,
    "american_binary": american_binary,
}


def start_indices(start: float, dt: float, ulps: int = 8) -> List[int]:
    """Admissible start indices for a start time ``start`` on a grid of step ``dt``, from the exact ratio r of the two
    floats: when r lies within ``ulps`` float64 ulps of an integer k (a start time written k*dt, k/n or as a k-fold sum of
    dt: the grid point k itself, whichever side of k the float quotient lands on) the index is k and nothing else;
    otherwise floor(r). In between (more than ``ulps`` ulps but less than 1e-8 away from k: neither clearly on the grid
    nor clearly off it; not generated) both are admissible."""
    r = Fr(start) / Fr(dt)
    fl = int(r.numerator // r.denominator)
    k = int(round(r))
    gap = abs(r - k)
    if gap <= ulps * Fr(2) ** -52 * max(abs(r), 1):
        out = {k}
    elif gap <= Fr(1, 10 ** 8):
        out = {fl, k}
    else:
        out = {fl}
    return sorted(i for i in out if i >= 0)


# ------------------------------------------------------------------------------ realised variance
def realized_variance_mp(path: Sequence[float], dt: float, eps: float, dt_rel_err: float = 0.0):
    """-> (value, error bound) of mean_i (log S_{i+1} - log S_i)^2 / dt for the float evaluation
    ``input.log().diff().square().mean() / dt`` in a dtype with machine epsilon ``eps``.

    Error model (fixed a priori): each log carries an absolute error <= 2*eps*|log S| (<= 2 ulp kernels), so a
    log-return d_i carries e_i = 2*eps*(|l_i|+|l_{i+1}|) + eps*|d_i|; its square 2|d_i|e_i + e_i^2 + eps*d_i^2;
    the mean of n squares (n+2)*eps*mean(d^2) more; the division by dt two more roundings plus the
    representation error of dt in the dtype (``dt_rel_err``).
    """
    with mp.workdps(MP_DPS):
        ls = [mp.log(mp.mpf(x)) for x in path]
        n = len(path) - 1
        if n < 1:
            raise ValueError("realised variance needs at least two points")
        tot = mp.mpf(0)
        err = mp.mpf(0)
        for i in range(n):
            d = ls[i + 1] - ls[i]
            e = 2 * eps * (abs(ls[i]) + abs(ls[i + 1])) + eps * abs(d)
            tot += d * d
            err += 2 * abs(d) * e + e * e + eps * d * d
        mean = tot / n
        err = err / n + (n + 2) * eps * mean
        dtm = mp.mpf(dt)
        val = mean / dtm
        bound = err / dtm + (2 * eps + dt_rel_err) * val
        return val, bound


# ------------------------------------------------------------------------------ clause algebra
# spec: {"kind": "affine", "a": float, "b": float} | {"kind": "cap", "c": float} | {"kind": "floor", "c": float}
#       | {"kind": "knockout", "barrier": float} | {"kind": "square"}
def make_clause(spec: Dict[str, Any]):
    """The torch callable ``clause(derivative, payoff) -> payoff`` registered on the derivative."""
    import torch

    kind = spec["kind"]
    if kind == "affine":
        a, b = spec["a"], spec["b"]
        return lambda derivative, payoff: a * payoff + b
    if kind == "cap":
        c = spec["c"]
        return lambda derivative, payoff: payoff.clamp(max=c)
    if kind == "floor":
        c = spec["c"]
        return lambda derivative, payoff: payoff.clamp(min=c)
    if kind == "knockout":
        barrier = spec["barrier"]

        def knockout(derivative, payoff):
            peak = derivative.ul().spot.max(dim=-1).values
            return payoff.where(peak < barrier, torch.zeros_like(payoff))

        return knockout
    if kind == "square":
        return lambda derivative, payoff: payoff * payoff
    raise ValueError(kind)


SMALLEST_NORMAL = {2.0 ** -23: Fr(2) ** -126, 2.0 ** -52: Fr(2) ** -1022}


def apply_clause_exact(spec: Dict[str, Any], value: Fr, err: Fr, path: Sequence[float], eps: float) -> Tuple[Fr, Fr]:
    """Exact semantics of one clause on (value, accumulated float error bound).  Every arithmetic clause also gets the
    underflow allowance of its dtype (a result below the smallest normal number is flushed or loses precision)."""
    kind = spec["kind"]
    e = Fr(eps)
    tiny = SMALLEST_NORMAL[eps]
    if kind == "affine":
        a, b = Fr(spec["a"]), Fr(spec["b"])
        v = a * value + b
        # scalar a, b are converted to the tensor dtype (one representation error each), two roundings
        return v, abs(a) * err + 2 * e * (abs(a * value) + abs(b)) + e * abs(v) + tiny
    if kind == "cap":
        c = Fr(spec["c"])
        return min(value, c), err + e * abs(c)
    if kind == "floor":
        c = Fr(spec["c"])
        return max(value, c), err + e * abs(c)
    if kind == "knockout":
        peak = max(Fr(x) for x in path)
        return (value, err) if peak < Fr(spec["barrier"]) else (Fr(0), Fr(0))
    if kind == "square":
        return value * value, 2 * abs(value) * err + err * err + e * value * value + tiny
    raise ValueError(kind)


def apply_clauses_exact(specs, value: Fr, path: Sequence[float], eps: float) -> Tuple[Fr, Fr, Fr]:
    """-> (value, error bound, largest intermediate magnitude) of the clauses applied in list order."""
    err = Fr(0)
    peak = abs(value)
    for s in specs:
        value, err = apply_clause_exact(s, value, err, path, eps)
        peak = max(peak, abs(value))
    return value, err, peak
