"""Coverage-guided tier: drive a sub-check's Hypothesis strategy with atheris/libFuzzer.

    python -m pbt.fuzz <PID> <sub> <seconds> <seed> <out.json> <corpus dir>

libFuzzer mutates a byte buffer, Hypothesis' ``fuzz_one_input`` decodes it into a structured case through the
sub-check's own strategy (so every executed case is a legal input), the oracle runs inside the target and violations are
*collected* (the campaign continues behind them).  pfhedge is imported under atheris instrumentation, so new branches of
pfhedge reached by a case feed back into the mutation schedule.  The process never returns from atheris.Fuzz(); the
recorder is flushed to <out.json> every few hundred executions and at the end through libFuzzer's exit.
"""
import json
import os
import sys
import time


def main():
    pid, sub_name, seconds, seed, out, corpus = sys.argv[1], sys.argv[2], float(sys.argv[3]), int(sys.argv[4]), sys.argv[5], sys.argv[6]
    import atheris

    with atheris.instrument_imports(include=["pfhedge"]):
        import pfhedge  # noqa: F401
        import pfhedge.features  # noqa: F401
        import pfhedge.instruments  # noqa: F401
        import pfhedge.nn  # noqa: F401
        import pfhedge.stochastic  # noqa: F401
    import torch
    from hypothesis import HealthCheck, given, settings

    from .core import Recorder, run_case
    from .run import _active_known, load_module

    torch.set_num_threads(1)
    mod = load_module(pid)
    sub = {s.name: s for s in mod.SUBS}[sub_name]
    rec = Recorder(sub.name)
    known = getattr(mod, "KNOWN", {})
    active = _active_known(pid)
    state = {"execs": 0, "t0": time.time(), "last_flush": 0.0, "harness_error": None}

    @settings(database=None, deadline=None, suppress_health_check=list(HealthCheck))
    @given(sub.strategy("thorough"))
    def test(case):
        run_case(sub, case, rec, known, active)

    def flush():
        d = rec.to_json()
        d["fuzz_execs"] = state["execs"]
        d["fuzz_seconds"] = time.time() - state["t0"]
        d["harness_error"] = state["harness_error"]
        tmp = out + ".tmp"
        with open(tmp, "w") as f:
            json.dump(d, f)
        os.replace(tmp, out)

    def one(data):
        state["execs"] += 1
        try:
            test.hypothesis.fuzz_one_input(data)
        except Exception:  # noqa: BLE001 - a harness/oracle error must not look like a crash found by the fuzzer
            import traceback

            state["harness_error"] = traceback.format_exc()[-2000:]
            flush()
            os._exit(3)
        now = time.time()
        if now - state["last_flush"] > 5.0:
            state["last_flush"] = now
            flush()
        if now - state["t0"] > seconds:
            flush()
            os._exit(0)

    os.makedirs(corpus, exist_ok=True)
    argv = [sys.argv[0], corpus, f"-seed={seed}", "-max_len=8192", "-len_control=0", f"-max_total_time={int(seconds) + 30}",
            "-print_final_stats=0", "-verbosity=0"]
    atheris.Setup(argv, one)
    atheris.Fuzz()


if __name__ == "__main__":
    main()
