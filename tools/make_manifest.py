#!/venv/bin/python
"""Regenerates MANIFEST.json from the property modules present in pbt/props (META dict in each)."""
import importlib
import json
import os
import subprocess
import sys

HERE = os.path.dirname(os.path.dirname(os.path.abspath(__file__)))
sys.path.insert(0, HERE)
sys.path.insert(0, "/repo")
IDS = ["C%02d" % i for i in range(1, 21)]

READY = set(open(os.path.join(HERE, "tools", "ready.txt")).read().split())
checks, na = [], []
for pid in IDS:
    if pid not in READY:
        na.append({"property_id": pid, "reason": "check under construction (planned in DESIGN.md section 3)"})
        continue
    try:
        mod = importlib.import_module("pbt.props." + pid.lower())
    except ModuleNotFoundError as e:
        if "pbt.props" in str(e):
            na.append({"property_id": pid, "reason": "check not built yet (planned in DESIGN.md section 3)"})
            continue
        raise
    meta = getattr(mod, "META", {})
    checks.append({
        "property_id": pid,
        "quick_cmd": f"./check {pid} quick",
        "thorough_cmd": f"./check {pid} thorough",
        "evidence_file": f"evidence/{pid}.json",
        "replay_cmd_template": f"./check {pid} --replay {{path}}",
        "engine": "pbt",
        "level_claimed": {
            "category": getattr(mod, "LEVEL", "exploration"),
            "text": meta.get("level_text", "Generated-input search (Hypothesis) against an explicit oracle; held on everything explored, no claim of absence."),
            "design_ref": f"DESIGN.md section 3, {pid}",
        },
        "level_note": meta.get("level_note", "; ".join(getattr(mod, "ASSUMPTIONS", [])) or "oracle and tolerances as stated in DESIGN.md 2.1"),
        "technique": meta.get("technique", "property-based testing (Hypothesis) with explicit oracle"),
    })

commits = subprocess.run(["git", "-C", "/repo", "log", "--format=%h %s", "3cb6c2a..HEAD"], capture_output=True, text=True).stdout.splitlines()
manifest = {
    "version": 1,
    "setup_cmd": "/venv/bin/python -c 'import hypothesis' 2>/dev/null || /venv/bin/pip install -q --no-index --find-links /opt/veriftools/wheels hypothesis",
    "hooks": {
        "guard": "PFHEDGE_VERIF",
        "enable": "none needed: pfhedge is pure Python and ./check imports /repo's working tree via PYTHONPATH; all instrumentation (recording models, counting optimisers, engine stubs) is supplied from outside through public extension points",
        "baseline_off_cmd": "cd /repo && /venv/bin/python -m pytest -ra -q -p no:cacheprovider --timeout=900 --continue-on-collection-errors",
        "source_commits": [],
        "add_only": True,
    },
    "engines": [{
        "name": "pbt",
        "path": "pbt/",
        "serves_properties": [c["property_id"] for c in checks],
        "kind_free_text": "Hypothesis-driven generated search, 16 shards, collect-then-shrink per oracle label, JSON replay files, exact/mpmath/statistical oracles",
    }],
    "checks": checks,
    "not_applicable": na,
    "notes": "Unguarded 'fix:' commits in /repo (genuine defects repaired): " + "; ".join(commits),
}
json.dump(manifest, open(os.path.join(HERE, "MANIFEST.json"), "w"), indent=1)
print("checks:", [c["property_id"] for c in checks], "not_applicable:", [n["property_id"] for n in na])
