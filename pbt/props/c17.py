"""C17 - Instrument dtype/device contract holds over any cast/simulate sequence."""
import itertools

import torch
from hypothesis import strategies as st

from ..core import Abort, Sub
from ..gens import OPTIONS, PRIMARIES, SIGMA_FNS, STOCKS

PROPERTY_ID = "C17"
ASSUMPTIONS = [
    "reference model: declared dtype D (None until set) is set by to(dtype)/float()/double()/half()/bfloat16()/to(tensor)/"
    "to(instrument with a declared dtype); every cast re-casts all buffers; simulate() creates buffers in D, or in the global "
    "default dtype at that moment when D is None; register_buffer casts to D when D is declared; the derivative's dtype is the underlier's",
    "outputs (payoff, features, listed price, hedge, P&L, loss, price) are compared with the dtype of the underlier's spot buffer",
    "an operator the CPU backend does not implement for a half type is counted as unsupported, not as a violation",
    "device is CPU throughout (no other device in this sandbox)",
]

DT = {"f16": torch.float16, "bf16": torch.bfloat16, "f32": torch.float32, "f64": torch.float64}

QUICK_ALPHABET = ["to_f16", "to_bf16", "to_f32", "to_f64", "double", "half", "to_tensor_f64", "to_inst_f64", "simulate", "reg_f64",
                  "deriv_to_f32", "gdef_f64", "gdef_f32", "eval"]
FULL_ALPHABET = QUICK_ALPHABET + ["float", "bfloat16", "to_inst_none", "deriv_double", "to_int", "to_kw_f32", "float64", "float16",
                                  "to_tensor_bf16", "simulate_big", "deriv_half", "deriv_bfloat16", "deriv_float", "deriv_float64",
                                  "deriv_float16", "deriv_to_tensor_f64", "reg_int", "reg_bool", "reg_alias"]


def make_primary(name):
    import pfhedge.instruments as I

    if name == "LocalVolatilityStock":
        return I.LocalVolatilityStock(SIGMA_FNS["flat"], dt=0.01)
    return getattr(I, name)(dt=0.01)


def make_derivative(dname, ul):
    import pfhedge.instruments as I

    strike = 0.04 if type(ul).__name__ in ("CIRRate", "VasicekRate") else 1.0
    if dname in OPTIONS:
        return getattr(I, dname)(ul, strike=strike, maturity=0.03)
    if dname == "EuropeanForwardStartOption":
        return I.EuropeanForwardStartOption(ul, maturity=0.03, start=0.01)
    return I.VarianceSwap(ul, maturity=0.03)


def unsupported(exc):
    s = str(exc)
    if "not implemented for" in s or "not supported" in s.lower() or "Half" in s and "implemented" in s or "BFloat16" in s and "implemented" in s:
        return "unsupported-half-op"
    return None


class Model:
    def __init__(self):
        self.D = None
        self.buf = {}

    def cast(self, dt):
        if dt is not None:
            self.D = dt
            self.buf = {k: dt for k in self.buf}


def run_sequence(case, ctx):
    import pfhedge.instruments as I
    from pfhedge.features import Barrier, get_feature
    from pfhedge.nn import BlackScholes, EntropicRiskMeasure, Hedger, Naked

    saved_default = torch.get_default_dtype()
    try:
        torch.set_default_dtype(DT[case.get("start_default", "f32")])
        ul = make_primary(case["primary"])
        deriv = make_derivative(case["deriv"], ul)
        other64 = I.BrownianStock(dtype=torch.float64)
        other_none = I.BrownianStock()
        model = Model()

        class PrevHalf(torch.nn.Module):  # parameter-free user model that feeds the previous hedge back
            def forward(self, input):
                return 0.5 * input[..., [-1]] + 0.125

        persistent = Hedger(PrevHalf(), ["zeros", "prev_hedge"])  # one long-lived hedger, used all along the history
        sim_names = None
        cast_after_sim = False
        seen_sim = False

        def simulate(n=2):
            nonlocal sim_names, seen_sim
            torch.manual_seed(case.get("seed", 0))
            with ctx.sut("C17/simulate", expected=unsupported):
                deriv.simulate(n_paths=n)
            want = model.D if model.D is not None else torch.get_default_dtype()
            names = [k for k, _ in ul.named_buffers() if k not in ("extra", "flag")]  # the simulated series (not the caller's own buffers)
            for k in names:
                model.buf[k] = want
            seen_sim = True
            if want == torch.float64:
                # "produced in it": a float64 simulation that was computed in a narrower type and cast afterwards
                # holds only float32-representable numbers
                bufs = dict(ul.named_buffers())
                for k in names:
                    b = bufs[k][:, 1:]
                    if b.dtype == torch.float64 and b.numel() and bool(torch.isfinite(b).all()):
                        ctx.check(not torch.equal(b.float().double(), b), "C17/simulated-in-lower-precision",
                                  f"float64 buffer '{k}' holds only float32-representable values: the simulation was not produced in float64",
                                  ops=case["ops"])

        def check_state(where):
            for k, b in ul.named_buffers():
                w = model.buf.get(k)
                if not ctx.check(b.dtype == w, "C17/buffer-dtype", f"after {where}: buffer '{k}' is {b.dtype}, the contract says {w} "
                                 f"(declared {model.D}, default {torch.get_default_dtype()})", ops=case["ops"]):
                    raise Abort()
                ctx.check(b.device.type == "cpu", "C17/device", f"buffer '{k}' on {b.device}")
            if not ctx.check(ul.dtype == model.D, "C17/declared-dtype", f"after {where}: instrument declares {ul.dtype}, expected {model.D}", ops=case["ops"]):
                raise Abort()
            if not ctx.check(deriv.dtype == ul.dtype and deriv.device == ul.device, "C17/derivative-alias",
                             f"after {where}: derivative dtype {deriv.dtype} != underlier {ul.dtype}"):
                raise Abort()

        for i, o in enumerate(case["ops"]):
            where = f"op#{i} {o}"
            if seen_sim and (o.startswith("to_") or o.startswith("deriv_") or o in ("double", "half", "float", "bfloat16", "float64", "float16")) and o != "to_int" and o != "to_inst_none":
                cast_after_sim = True
            with ctx.sut("C17/" + o, expected=unsupported):
                if o in ("to_f16", "to_bf16", "to_f32", "to_f64"):
                    r = ul.to(DT[o[3:]])
                    model.cast(DT[o[3:]])
                    ctx.check(r is ul, "C17/to-returns-self", "to() did not return the instrument")
                elif o == "to_kw_f32":
                    ul.to(dtype=torch.float32)
                    model.cast(torch.float32)
                elif o in ("double", "float64"):
                    getattr(ul, o)()
                    model.cast(torch.float64)
                elif o == "float":
                    ul.float()
                    model.cast(torch.float32)
                elif o in ("half", "float16"):
                    getattr(ul, o)()
                    model.cast(torch.float16)
                elif o == "bfloat16":
                    ul.bfloat16()
                    model.cast(torch.bfloat16)
                elif o == "to_tensor_f64":
                    ul.to(torch.zeros(1, dtype=torch.float64))
                    model.cast(torch.float64)
                elif o == "to_tensor_bf16":
                    ul.to(torch.zeros(1, dtype=torch.bfloat16))
                    model.cast(torch.bfloat16)
                elif o == "to_inst_f64":
                    ul.to(other64)
                    model.cast(torch.float64)
                elif o == "to_inst_none":
                    ul.to(other_none)
                    model.cast(None)
                elif o == "deriv_to_f32":
                    r = deriv.to(torch.float32)
                    model.cast(torch.float32)
                    ctx.check(r is deriv, "C17/to-returns-self", "derivative.to() did not return the derivative")
                elif o == "deriv_double":
                    deriv.double()
                    model.cast(torch.float64)
                elif o in ("deriv_half", "deriv_bfloat16", "deriv_float", "deriv_float64", "deriv_float16"):
                    # every cast alias of a derivative forwards to its underlier
                    getattr(deriv, o[6:])()
                    model.cast({"half": torch.float16, "bfloat16": torch.bfloat16, "float": torch.float32, "float64": torch.float64,
                                "float16": torch.float16}[o[6:]])
                elif o == "deriv_to_tensor_f64":
                    deriv.to(torch.zeros(1, dtype=torch.float64))
                    model.cast(torch.float64)
                elif o == "simulate":
                    simulate(2)
                elif o == "simulate_big":
                    simulate(3)
                elif o == "reg_f64":
                    ul.register_buffer("extra", torch.ones(2, 3, dtype=torch.float64))
                    model.buf["extra"] = model.D if model.D is not None else torch.float64
                elif o in ("reg_int", "reg_bool"):
                    # a regime label / a mask kept with the paths: cast to the declared dtype like every buffer
                    payload = torch.ones(2, 3, dtype=torch.int64) if o == "reg_int" else torch.ones(2, 3, dtype=torch.bool)
                    ul.register_buffer("flag", payload)
                    model.buf["flag"] = model.D if model.D is not None else payload.dtype
                elif o == "reg_alias":
                    # the current series kept under a second name (e.g. to compare with the next simulation): one tensor, two buffers
                    cur_b = dict(ul.named_buffers())
                    if "spot" in cur_b:
                        ul.register_buffer("flag", cur_b["spot"])
                        model.buf["flag"] = model.D if model.D is not None else cur_b["spot"].dtype
                elif o == "gdef_f64":
                    torch.set_default_dtype(torch.float64)
                elif o == "gdef_f32":
                    torch.set_default_dtype(torch.float32)
                elif o == "eval":
                    # use the instruments in the middle of the history (anything cached here must not survive a later cast)
                    if "spot" in dict(ul.named_buffers()):
                        mid = dict(ul.named_buffers())["spot"].dtype
                        outs = {"payoff": deriv.payoff}
                        if case["deriv"] in OPTIONS:
                            outs.update({"time_to_maturity()": deriv.time_to_maturity, "moneyness()": deriv.moneyness,
                                         "log_moneyness()": deriv.log_moneyness, "max_moneyness()": deriv.max_moneyness,
                                         "time_to_maturity(0)": lambda: deriv.time_to_maturity(0),
                                         "feature:time_to_maturity": lambda: get_feature("time_to_maturity").of(deriv).get(None)})
                        if case["primary"] in STOCKS:
                            outs.update({"volatility": lambda: ul.volatility, "variance": lambda: ul.variance})
                        outs["naked.compute_pl"] = lambda: Hedger(Naked(), ["zeros"]).compute_pl(deriv)
                        if mid.is_floating_point and dict(ul.named_buffers())["spot"].shape[1] >= 2:
                            outs["long-lived-hedger.compute_hedge"] = lambda: persistent.compute_hedge(deriv)
                            outs["long-lived-hedger.compute_pl"] = lambda: persistent.compute_pl(deriv)
                        for lab, fn in outs.items():
                            r = fn()
                            ctx.check(r.dtype == mid, "C17/output-dtype", f"mid-history {lab} is {r.dtype}, instruments are {mid} (ops {case['ops'][: i + 1]})",
                                      output=lab)
                elif o == "to_int":
                    for bad in (torch.int64, torch.bool, torch.int32, torch.complex64, torch.complex128):
                        ctx.expect_raises("C17/non-float-accepted", (TypeError,), lambda bad=bad: ul.to(bad))
                    ctx.expect_raises("C17/non-float-accepted", (TypeError,), lambda: deriv.to(torch.int64))
                else:
                    raise ValueError(o)
            check_state(where)
        # ---- subsequent simulation and everything computed from it
        simulate(2)
        check_state("final simulate")
        cur = dict(ul.named_buffers())["spot"].dtype
        half = cur in (torch.float16, torch.bfloat16)
        dname, pname = case["deriv"], case["primary"]

        def out(label, fn, want=None):
            with ctx.sut("C17/out/" + label, expected=unsupported):
                r = fn()
            w = want or cur
            ctx.check(r.dtype == w, "C17/output-dtype", f"{label} is {r.dtype}, instruments are {w} (ops {case['ops']})", output=label)
            return r

        try:
            out("payoff", deriv.payoff)
        except Abort:
            pass
        feats = ["underlier_spot", "zeros"]
        if dname in OPTIONS:
            feats += ["moneyness", "log_moneyness", "time_to_maturity", "max_moneyness", "max_log_moneyness"]
        if pname in STOCKS:
            feats += ["volatility", "variance"]
        flist = [(n, get_feature(n)) for n in feats] + [("barrier", Barrier(1.0)), ("barrier_down", Barrier(1.0, up=False))]
        for n, f in flist:
            fb = f.of(deriv)
            for lab, fn in ((n + ".get(None)", lambda fb=fb: fb.get(None)), (n + ".get(0)", lambda fb=fb: fb.get(0)), (n + ".get(1)", lambda fb=fb: fb.get(1))):
                try:
                    out("feature:" + lab, fn)
                except Abort:
                    pass
        if dname in OPTIONS:
            deriv.list(lambda d: (d.ul().spot - d.strike).tanh() + 0.1 * d.time_to_maturity())
            try:
                out("listed-price", lambda: deriv.spot)
            except Abort:
                pass
            deriv.delist()
        hedgers = [("naked", Hedger(Naked(), ["zeros"])), ("long-lived", persistent)]
        if dname in OPTIONS and pname in STOCKS and (dname in ("EuropeanOption", "EuropeanBinaryOption")):
            m = BlackScholes(deriv)
            hedgers.append(("bs", Hedger(m, m.inputs())))
        lin = torch.nn.Linear(2, 1).to(cur)
        hedgers.append(("linear", Hedger(lin, ["underlier_spot", "prev_hedge"])))
        for hn, hg in hedgers:
            with torch.no_grad():
                try:
                    out(hn + ".compute_hedge", lambda: hg.compute_hedge(deriv))
                    p = out(hn + ".compute_pl", lambda: hg.compute_pl(deriv))
                    out(hn + ".compute_portfolio", lambda: hg.compute_portfolio(deriv))
                    out(hn + ".criterion", lambda: EntropicRiskMeasure()(p))
                except Abort:
                    continue
        # price / loss re-simulate: produced in the declared (or current default) dtype
        want = model.D if model.D is not None else torch.get_default_dtype()
        hg = hedgers[0][1]
        try:
            out("compute_loss", lambda: hg.compute_loss(deriv, n_paths=2, enable_grad=False), want)
            out("price", lambda: hg.price(deriv, n_paths=2), want)
            out("compute_loss(n_times=2)", lambda: hg.compute_loss(deriv, n_paths=2, n_times=2, enable_grad=False), want)
            out("price(n_times=3)", lambda: hg.price(deriv, n_paths=2, n_times=3), want)
        except Abort:
            pass
        ctx.nontrivial(cast_after_sim)
        ctx.cls("primary:" + pname, "deriv:" + dname, "final:" + str(cur).replace("torch.", ""), "declared:" + str(model.D).replace("torch.", ""))
    finally:
        torch.set_default_dtype(saved_default)


DERIVS = OPTIONS + ["EuropeanForwardStartOption", "VarianceSwap"]


def enumerate_sequences(tier):
    depth = 3 if tier == "quick" else 4
    cases = []
    for pi, p in enumerate(PRIMARIES):
        for k, ops in enumerate(itertools.product(QUICK_ALPHABET, repeat=depth)):
            cases.append({"primary": p, "deriv": DERIVS[(pi + k) % len(DERIVS)], "ops": list(ops)})
    if tier == "thorough":
        for pi, p in enumerate(PRIMARIES[:3]):
            for k, ops in enumerate(itertools.product(FULL_ALPHABET, repeat=3)):
                cases.append({"primary": p, "deriv": DERIVS[(pi + k) % len(DERIVS)], "ops": list(ops), "start_default": "f64" if k % 2 else "f32"})
    return cases


@st.composite
def random_history(draw):
    return {"primary": draw(st.sampled_from(PRIMARIES)), "deriv": draw(st.sampled_from(DERIVS)),
            "ops": draw(st.lists(st.sampled_from(FULL_ALPHABET), min_size=4, max_size=12)),
            "start_default": draw(st.sampled_from(["f32", "f64"])), "seed": draw(st.integers(0, 1000))}


LEVEL = "exploration"
META = {
    "technique": "model-based testing of operation histories: exhaustive enumeration (itertools.product) of cast/simulate sequences to a bounded depth plus Hypothesis-generated longer histories, checked against a reference dtype model",
    "level_text": "Exploration, exhaustive to a stated depth: all 14^3 (quick) / 14^4 (thorough) sequences over the cast/simulate/register/default-dtype alphabet for each of the 8 primaries (derivative type rotating), plus 23^3 sequences of the full alphabet on three primaries and random histories of length 4..12; after every operation every buffer's dtype, the declared dtype and the derivative alias are compared with a reference model, after every sequence a new simulation and every derived output (payoff, features, listed price, hedge, P&L, loss, price) must be in that dtype; non-floating dtypes must raise TypeError.",
}

SUBS = [
    Sub("exhaustive_sequences", run_sequence,
        rule="itertools.product over {to f16/bf16/f32/f64, double, half, to(tensor f64), to(instrument f64), simulate, register_buffer(f64), "
             "derivative.to(f32), set_default_dtype f64/f32, eval (use payoff/features/volatility/P&L mid-history)}^depth (depth 3 quick, 4 thorough) x 8 primaries, derivative type rotating "
             "over 6 types; each sequence is followed by a final simulate and all derived outputs. Non-trivial: a cast occurs after a "
             "simulate (and the final simulate follows it).",
        enumerate=enumerate_sequences, exhaustive=True, time_cap={"quick": 240.0, "thorough": 3000.0}),
    Sub("random_histories", run_sequence,
        rule="Hypothesis lists of 4..12 ops over the full alphabet (adds float, bfloat16, float64, float16, to(dtype=), to(instrument "
             "without dtype), derivative.double, to(tensor bf16), simulate with another n_paths, register_buffer(int64 / bool payload, or the current series under a second name), to(int/bool/complex) -> TypeError), both initial "
             "global default dtypes. Non-trivial as above.",
        strategy=lambda tier: random_history(), examples={"quick": 1600, "thorough": 16000}, fuzz={"thorough": 120.0}),
]
