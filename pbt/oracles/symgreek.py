"""Smooth user pricers as expression trees, with three independent evaluations.

A pricer is a JSON-able tree over the variables ``S`` (spot), ``v`` (volatility), ``t`` (time to
maturity):

    ["S"] | ["v"] | ["t"] | ["c", float]
    ["powp", var, a]          var**a           (var is a positive leaf)
    ["expl", var, c]          exp(c*var)
    (constants and exponents are dyadic rationals with small denominators: they are exact both as floats and
    as sympy Rationals, and sympy's assumption queries never meet an exponent like p/2^52 - which made it build
    a dense polynomial of astronomical degree and exhaust the memory while this check was developed)
    ["logp", var] | ["sqrtp", var]             (positive leaf only)
    [u, node]                 u in UNARY: sin cos tanh atan erf gauss sigmoid sqrt1p log1p2 sq
    [b, node, node]           b in BINARY: add sub mul div1p   (div1p(a,b) = a / (1 + b^2))

All operations are smooth on the whole generated domain (S, v, t > 0).

* ``to_torch(tree, S, v, t)``   - the pricer itself, written with torch ops (this is the *user code*
  handed to pfhedge.autogreek; autograd differentiates it).
* ``SymPricer(tree)``           - the same expression in sympy; ``deriv(var, order)`` is the symbolic
  derivative, ``eval_mp`` evaluates it in mpmath at 60 digits on the exact float inputs.  This is the
  oracle (independent of autograd).
* ``running(tree, S, v, t, var)`` - forward-mode second-order dual numbers in Python floats whose
  every component carries a first-order *running error bound* (Wilkinson/Higham style: each
  operation adds ``eps*|result|``, each elementary function ``4*eps*|result|`` plus the propagated
  argument error, leaves start with ``8*eps*|x|`` for the exp/log and square/sqrt round trips of the
  re-parameterisations).  It yields (i) an a-priori bound for the rounding error of a float64
  derivative evaluation, used as the tolerance scale, and (ii) a third, independent value of the
  derivatives that cross-checks the sympy oracle.
"""
import math
from functools import lru_cache
from typing import Any, Dict, List, Tuple

EPS = 2.0 ** -52
VARS = ("S", "v", "t")
UNARY = ("sin", "cos", "tanh", "atan", "erf", "gauss", "sigmoid", "sqrt1p", "log1p2", "sq")
BINARY = ("add", "sub", "mul", "div1p")
POSLEAF = ("powp", "expl", "logp", "sqrtp")


# --------------------------------------------------------------------------------------- tree utils
def variables_of(tree) -> set:
    op = tree[0]
    if op in VARS:
        return {op}
    if op == "c":
        return set()
    if op in POSLEAF:
        return {tree[1]}
    out = set()
    for ch in tree[1:]:
        out |= variables_of(ch)
    return out


def size_of(tree) -> int:
    op = tree[0]
    if op in VARS or op == "c" or op in POSLEAF:
        return 1
    return 1 + sum(size_of(ch) for ch in tree[1:])


# --------------------------------------------------------------------------------------- torch
def to_torch(tree, S, v, t):
    import torch

    env = {"S": S, "v": v, "t": t}

    def ev(n):
        op = n[0]
        if op in VARS:
            return env[op]
        if op == "c":
            return float(n[1])
        if op == "powp":
            return env[n[1]] ** float(n[2])
        if op == "expl":
            return torch.exp(float(n[2]) * env[n[1]])
        if op == "logp":
            return torch.log(env[n[1]])
        if op == "sqrtp":
            return torch.sqrt(env[n[1]])
        if op in UNARY:
            x = ev(n[1])
            if not isinstance(x, torch.Tensor):
                x = torch.as_tensor(x, dtype=torch.float64)
            if op == "sin":
                return torch.sin(x)
            if op == "cos":
                return torch.cos(x)
            if op == "tanh":
                return torch.tanh(x)
            if op == "atan":
                return torch.atan(x)
            if op == "erf":
                return torch.erf(x)
            if op == "gauss":
                return torch.exp(-0.5 * x * x)
            if op == "sigmoid":
                return torch.sigmoid(x)
            if op == "sqrt1p":
                return torch.sqrt(1.0 + x * x)
            if op == "log1p2":
                return torch.log1p(x * x)
            if op == "sq":
                return x * x
        a, b = ev(n[1]), ev(n[2])
        if op == "add":
            return a + b
        if op == "sub":
            return a - b
        if op == "mul":
            return a * b
        if op == "div1p":
            return a / (1.0 + b * b)
        raise ValueError("unknown op %r" % (op,))

    return ev(tree)


# --------------------------------------------------------------------------------------- sympy
def _sym():
    import sympy as sp

    return sp


@lru_cache(maxsize=None)
def _symbols():
    sp = _sym()
    return {k: sp.Symbol(k, positive=True) for k in VARS}


@lru_cache(maxsize=None)
def _log1p2_class():
    """log(1 + x^2) as an opaque sympy function: evaluated with mpmath.log1p (log(1 + x*x) at fixed precision returns 0
    for tiny |x| although float64 log1p resolves it), differentiated as 2x / (1 + x^2)."""
    sp = _sym()

    class Log1p2(sp.Function):
        nargs = 1

        def fdiff(self, argindex=1):
            x = self.args[0]
            return 2 * x / (1 + x * x)

    return Log1p2


def _mp_modules():
    import mpmath as mp

    return [{"Log1p2": lambda x: mp.log1p(x * x)}, "mpmath"]


def _unary_sym(op, x):
    sp = _sym()
    if op == "sin":
        return sp.sin(x)
    if op == "cos":
        return sp.cos(x)
    if op == "tanh":
        return sp.tanh(x)
    if op == "atan":
        return sp.atan(x)
    if op == "erf":
        return sp.erf(x)
    if op == "gauss":
        return sp.exp(-x * x / 2)
    if op == "sigmoid":
        return 1 / (1 + sp.exp(-x))
    if op == "sqrt1p":
        return sp.sqrt(1 + x * x)
    if op == "log1p2":
        return _log1p2_class()(x)
    if op == "sq":
        return x * x
    raise ValueError(op)


def to_sympy(tree):
    sp = _sym()
    sy = _symbols()

    def R(x: float):
        return sp.Rational(*float(x).as_integer_ratio())  # the exact float

    def ev(n):
        op = n[0]
        if op in VARS:
            return sy[op]
        if op == "c":
            return R(n[1])
        if op == "powp":
            return sy[n[1]] ** R(n[2])
        if op == "expl":
            return sp.exp(R(n[2]) * sy[n[1]])
        if op == "logp":
            return sp.log(sy[n[1]])
        if op == "sqrtp":
            return sp.sqrt(sy[n[1]])
        if op in UNARY:
            return _unary_sym(op, ev(n[1]))
        a, b = ev(n[1]), ev(n[2])
        if op == "add":
            return a + b
        if op == "sub":
            return a - b
        if op == "mul":
            return a * b
        if op == "div1p":
            return a / (1 + b * b)
        raise ValueError(op)

    return ev(tree)


class SymPricer:
    """sympy form of a tree; derivatives evaluated in mpmath (60 digits)."""

    DPS = 60

    def __init__(self, tree):
        self.tree = tree
        self.expr = to_sympy(tree)
        self._fn: Dict[Tuple[str, int], Any] = {}

    def deriv(self, var: str, order: int):
        sp = _sym()
        return sp.diff(self.expr, _symbols()[var], order)

    def eval_mp(self, var: str, order: int, S: float, v: float, t: float):
        """d^order expr / d var^order at the exact float point, as an mpmath mpf."""
        import mpmath as mp

        sp = _sym()
        key = (var, order)
        if key not in self._fn:
            sy = _symbols()
            d = self.deriv(var, order) if order else self.expr
            self._fn[key] = sp.lambdify((sy["S"], sy["v"], sy["t"]), d, modules=_mp_modules())
        with mp.workdps(self.DPS):
            val = self._fn[key](mp.mpf(S), mp.mpf(v), mp.mpf(t))
            return mp.mpf(val)


# --------------------------------------------------------------------------------------- running error
class RE:
    """A float with a first-order running bound of its absolute error."""

    __slots__ = ("x", "e")

    def __init__(self, x: float, e: float = 0.0):
        self.x = x
        self.e = e

    def __add__(self, o):
        o = _re(o)
        z = self.x + o.x
        return RE(z, self.e + o.e + EPS * abs(z))

    def __sub__(self, o):
        o = _re(o)
        z = self.x - o.x
        return RE(z, self.e + o.e + EPS * abs(z))

    def __mul__(self, o):
        o = _re(o)
        z = self.x * o.x
        return RE(z, abs(self.x) * o.e + abs(o.x) * self.e + EPS * abs(z))

    __radd__ = __add__
    __rmul__ = __mul__


def _re(o) -> RE:
    return o if isinstance(o, RE) else RE(float(o), 0.0)


def _apply(f, fp, u: RE, floor: float = 0.0) -> RE:
    """elementary function with derivative fp: propagated argument error + 4 eps max(|value|, floor)"""
    z = f(u.x)
    return RE(z, abs(fp(u.x)) * u.e + 4 * EPS * max(abs(z), floor))


# Autograd evaluates the derivatives of tanh and sigmoid from the *output* y (1 - y^2, y (1 - y)): in the
# saturated range the factor 1 - y cancels, so these derivatives carry an absolute error of order eps
# instead of a relative one.
_ABS_FLOOR_DERIVS = {"tanh": 1.0, "sigmoid": 1.0}


def _sech2(x):
    c = math.cosh(x) if abs(x) < 350 else float("inf")
    return 1.0 / (c * c)


def _sig(x):
    if x >= 0:
        return 1.0 / (1.0 + math.exp(-x))
    e = math.exp(x)
    return e / (1.0 + e)


_SQPI = 2.0 / math.sqrt(math.pi)


def _gauss(x):
    return math.exp(-0.5 * x * x)


# f, f', f'', f''' of the unaries (hand-derived; cross-checked against sympy in selfcheck())
_UN: Dict[str, Tuple[Any, Any, Any, Any]] = {
    "sin": (math.sin, math.cos, lambda x: -math.sin(x), lambda x: -math.cos(x)),
    "cos": (math.cos, lambda x: -math.sin(x), lambda x: -math.cos(x), math.sin),
    "tanh": (math.tanh, _sech2, lambda x: -2 * math.tanh(x) * _sech2(x),
             lambda x: _sech2(x) * (6 * math.tanh(x) ** 2 - 2)),
    "atan": (math.atan, lambda x: 1 / (1 + x * x), lambda x: -2 * x / (1 + x * x) ** 2,
             lambda x: (6 * x * x - 2) / (1 + x * x) ** 3),
    "erf": (math.erf, lambda x: _SQPI * math.exp(-x * x), lambda x: -2 * x * _SQPI * math.exp(-x * x),
            lambda x: (4 * x * x - 2) * _SQPI * math.exp(-x * x)),
    "gauss": (_gauss, lambda x: -x * _gauss(x), lambda x: (x * x - 1) * _gauss(x),
              lambda x: (3 * x - x ** 3) * _gauss(x)),
    "sigmoid": (_sig, lambda x: _sig(x) * _sig(-x), lambda x: _sig(x) * _sig(-x) * (1 - 2 * _sig(x)),
                lambda x: _sig(x) * _sig(-x) * (1 - 6 * _sig(x) * _sig(-x))),
    "sqrt1p": (lambda x: math.sqrt(1 + x * x), lambda x: x / math.sqrt(1 + x * x),
               lambda x: (1 + x * x) ** -1.5, lambda x: -3 * x * (1 + x * x) ** -2.5),
    "log1p2": (lambda x: math.log1p(x * x), lambda x: 2 * x / (1 + x * x),
               lambda x: (2 - 2 * x * x) / (1 + x * x) ** 2, lambda x: (4 * x ** 3 - 12 * x) / (1 + x * x) ** 3),
    "sq": (lambda x: x * x, lambda x: 2 * x, lambda x: 2.0, lambda x: 0.0),
    "inv1p": (lambda x: 1 / (1 + x * x), lambda x: -2 * x / (1 + x * x) ** 2,
              lambda x: (6 * x * x - 2) / (1 + x * x) ** 3, lambda x: 24 * x * (1 - x * x) / (1 + x * x) ** 4),
}


def _posleaf_fns(op, par):
    if op == "powp":
        a = par
        return (lambda x: x ** a, lambda x: a * x ** (a - 1), lambda x: a * (a - 1) * x ** (a - 2),
                lambda x: a * (a - 1) * (a - 2) * x ** (a - 3))
    if op == "expl":
        c = par
        return (lambda x: math.exp(c * x), lambda x: c * math.exp(c * x), lambda x: c * c * math.exp(c * x),
                lambda x: c ** 3 * math.exp(c * x))
    if op == "logp":
        return (math.log, lambda x: 1 / x, lambda x: -1 / (x * x), lambda x: 2 / x ** 3)
    if op == "sqrtp":
        return (math.sqrt, lambda x: 0.5 / math.sqrt(x), lambda x: -0.25 * x ** -1.5, lambda x: 0.375 * x ** -2.5)
    raise ValueError(op)


class Dual2:
    """value, first and second derivative w.r.t. one variable; every component an RE."""

    __slots__ = ("f", "d1", "d2")

    def __init__(self, f: RE, d1: RE, d2: RE):
        self.f, self.d1, self.d2 = f, d1, d2


def _dual_unary(fns, u: Dual2, floor: float = 0.0) -> Dual2:
    f0, f1, f2, f3 = fns
    F0 = _apply(f0, f1, u.f)
    F1 = _apply(f1, f2, u.f, floor)
    F2 = _apply(f2, f3, u.f, floor)
    return Dual2(F0, F1 * u.d1, F2 * u.d1 * u.d1 + F1 * u.d2)


def _dual_mul(a: Dual2, b: Dual2) -> Dual2:
    return Dual2(a.f * b.f, a.d1 * b.f + a.f * b.d1, a.d2 * b.f + RE(2.0) * a.d1 * b.d1 + a.f * b.d2)


def running(tree, S: float, v: float, t: float, var: str) -> Dual2:
    """Forward-mode evaluation of value, d/dvar, d2/dvar2 with running error bounds."""
    vals = {"S": S, "v": v, "t": t}

    def leaf(name):
        x = vals[name]
        if name != var:
            return Dual2(RE(x, 8 * EPS * abs(x)), RE(0.0), RE(0.0))
        # the variable reaches the pricer through a round trip (spot -> log(spot/K) -> exp(.)*K, volatility ->
        # volatility^2 -> sqrt): its first derivative is 1 and its second derivative 0 only up to rounding
        return Dual2(RE(x, 8 * EPS * abs(x)), RE(1.0, 8 * EPS), RE(0.0, 8 * EPS / abs(x)))

    def ev(n) -> Dual2:
        op = n[0]
        if op in VARS:
            return leaf(op)
        if op == "c":
            return Dual2(RE(float(n[1])), RE(0.0), RE(0.0))
        if op in POSLEAF:
            return _dual_unary(_posleaf_fns(op, float(n[2]) if len(n) > 2 else None), leaf(n[1]))
        if op in UNARY:
            return _dual_unary(_UN[op], ev(n[1]), _ABS_FLOOR_DERIVS.get(op, 0.0))
        a, b = ev(n[1]), ev(n[2])
        if op == "add":
            return Dual2(a.f + b.f, a.d1 + b.d1, a.d2 + b.d2)
        if op == "sub":
            return Dual2(a.f - b.f, a.d1 - b.d1, a.d2 - b.d2)
        if op == "mul":
            return _dual_mul(a, b)
        if op == "div1p":
            return _dual_mul(a, _dual_unary(_UN["inv1p"], b))
        raise ValueError(op)

    return ev(tree)


def selfcheck() -> float:
    """The hand-written derivative tables against sympy; returns the worst relative discrepancy."""
    import mpmath as mp

    sp = _sym()
    x = sp.Symbol("x", real=True)
    worst = 0.0
    pts = [-2.3, -0.4, 0.0, 0.3, 1.7]
    for name, fns in _UN.items():
        expr = 1 / (1 + x * x) if name == "inv1p" else _unary_sym(name, x)
        for k in range(4):
            fk = sp.lambdify(x, sp.diff(expr, x, k) if k else expr, modules=_mp_modules())
            for p in pts:
                want = float(fk(mp.mpf(p)))
                got = fns[k](p)
                worst = max(worst, abs(got - want) / (1e-13 * (1 + abs(want))))
    xp = sp.Symbol("xp", positive=True)
    for op, par, expr in (("powp", 1.7, xp ** sp.Rational(17, 10)), ("powp", -0.5, xp ** sp.Rational(-1, 2)),
                          ("expl", -0.3, sp.exp(-sp.Rational(3, 10) * xp)), ("logp", None, sp.log(xp)),
                          ("sqrtp", None, sp.sqrt(xp))):
        fns = _posleaf_fns(op, par)
        for k in range(4):
            fk = sp.lambdify(xp, sp.diff(expr, xp, k) if k else expr, modules=_mp_modules())
            for p in (0.07, 0.9, 3.1, 20.0):
                want = float(fk(mp.mpf(p)))
                worst = max(worst, abs(fns[k](p) - want) / (1e-13 * (1 + abs(want))))
    return worst
