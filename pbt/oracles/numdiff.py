"""Ridders-extrapolated central differences (float64, vectorised) with an error estimate.

``ridders(f, x, h0, order)`` differentiates a black-box elementwise function ``f`` (numpy array ->
numpy array of the same shape) at the points ``x``.  Nothing about ``f`` is used but its values, so the
result is independent of autograd and of any closed form for the derivative.

Method (Ridders 1982; Numerical Recipes ``dfridr``): the central difference

    order 1:  D(h) = (f(x+h) - f(x-h)) / (2h)
    order 2:  D(h) = (f(x+h) - 2 f(x) + f(x-h)) / h^2

has an error expansion in even powers of ``h``; a Neville tableau over the step sequence
``h0, h0/c, h0/c^2, ...`` (c = 1.4) removes them one after the other.  Each new tableau entry comes with
the error estimate ``max(|a[j][i]-a[j-1][i]|, |a[j][i]-a[j-1][i-1]|)``; the entry with the smallest
estimate is returned, and an element stops as soon as the diagonal gets worse by a factor SAFE (round-off
has taken over).  To the extrapolation estimate we add an explicit round-off term
``eps * max|f| / h`` (``4 eps max|f| / h^2``) at the step that produced the answer, so the reported
error never falls below what float64 noise in ``f`` can produce.

The estimate is heuristic (as every a-posteriori estimate of a black box); users multiply it by a
safety factor and add an absolute floor.  ``selfcheck`` compares the routine with exactly known
derivatives and is run by the C08 check.
"""
from typing import Callable, Tuple

import numpy as np

CON = 1.4
CON2 = CON * CON
NTAB = 12
SAFE = 2.0
EPS = 2.0 ** -52


def ridders(f: Callable[[np.ndarray], np.ndarray], x, h0, order: int = 1, ntab: int = NTAB
            ) -> Tuple[np.ndarray, np.ndarray]:
    """-> (derivative, error estimate), elementwise.

    f     : elementwise function of an array shaped like ``x``
    x     : points (array)
    h0    : initial steps (array like x, > 0); f must be smooth on [x-h0, x+h0]
    order : 1 or 2
    """
    if order not in (1, 2):
        raise ValueError("order must be 1 or 2")
    x = np.asarray(x, dtype=np.float64)
    h = np.broadcast_to(np.asarray(h0, dtype=np.float64), x.shape).copy()
    if not (h > 0).all():
        raise ValueError("h0 must be positive")
    shape = x.shape
    f0 = np.asarray(f(x), dtype=np.float64) if order == 2 else None

    def diff(hh):
        # use the exactly representable step (x+h)-x
        xp = x + hh
        xm = x - hh
        fp = np.asarray(f(xp), dtype=np.float64)
        fm = np.asarray(f(xm), dtype=np.float64)
        mag = np.maximum(np.abs(fp), np.abs(fm))
        if order == 1:
            return (fp - fm) / (xp - xm), EPS * mag / hh
        mag = np.maximum(mag, np.abs(f0))
        return ((fp - f0) - (f0 - fm)) / (hh * hh), 4.0 * EPS * mag / (hh * hh)

    a = np.empty((ntab, ntab) + shape)
    a[0, 0], noise0 = diff(h)
    ans = a[0, 0].copy()
    err = np.full(shape, np.inf)
    noise = noise0.copy()
    done = np.zeros(shape, dtype=bool)
    for i in range(1, ntab):
        h = h / CON
        a[0, i], noise_i = diff(h)
        fac = CON2
        for j in range(1, i + 1):
            a[j, i] = (a[j - 1, i] * fac - a[j - 1, i - 1]) / (fac - 1.0)
            fac *= CON2
            errt = np.maximum(np.abs(a[j, i] - a[j - 1, i]), np.abs(a[j, i] - a[j - 1, i - 1]))
            better = (~done) & (errt <= err)
            if better.any():
                err = np.where(better, errt, err)
                ans = np.where(better, a[j, i], ans)
                noise = np.where(better, noise_i, noise)
        done = done | (np.abs(a[i, i] - a[i - 1, i - 1]) >= SAFE * err)
        if done.all():
            break
    bad = ~np.isfinite(ans) | ~np.isfinite(err)
    err = np.where(bad, np.inf, err + noise)
    return ans, err


def selfcheck() -> float:
    """Compare with exactly known derivatives; returns the worst |error| / (100*est + 1e-12*scale).
    A value > 1 means the routine (or its error estimate) is not trustworthy."""
    import math

    worst = 0.0
    x = np.array([-1.3, -0.2, 0.05, 0.7, 2.1])
    cases = [
        (np.sin, np.cos, lambda z: -np.sin(z), 0.3),
        (np.exp, np.exp, np.exp, 0.3),
        (lambda z: np.tanh(3 * z), lambda z: 3 / np.cosh(3 * z) ** 2,
         lambda z: -18 * np.tanh(3 * z) / np.cosh(3 * z) ** 2, 0.1),
        (lambda z: np.exp(-50 * z * z), lambda z: -100 * z * np.exp(-50 * z * z),
         lambda z: (10000 * z * z - 100) * np.exp(-50 * z * z), 0.03),
        (lambda z: np.vectorize(math.erf)(z / 0.01), lambda z: 2 / math.sqrt(math.pi) / 0.01 * np.exp(-(z / 0.01) ** 2),
         lambda z: -4 * z / math.sqrt(math.pi) / 0.01 ** 3 * np.exp(-(z / 0.01) ** 2), 0.004),
    ]
    for f, d1, d2, h0 in cases:
        for order, ex in ((1, d1), (2, d2)):
            got, est = ridders(f, x, np.full_like(x, h0), order)
            scale = np.maximum(np.abs(ex(x)), 1.0)
            r = np.abs(got - ex(x)) / (100 * est + 1e-12 * scale)
            worst = max(worst, float(r.max()))
    return worst
