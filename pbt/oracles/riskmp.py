"""Independent oracles for the risk measures / utility losses (C04, C05, C06).

Everything here is derived from the *definitions* in the property statements and evaluated either
in exact rationals (``fractions.Fraction`` on the float inputs: order statistics, expected
shortfall, value at risk, the piecewise-quadratic quadratic-CVaR objective) or in 50-digit
``mpmath`` (entropic risk, exponential / isoelastic utilities, OCE).  Nothing is imported from
pfhedge.

Conventions: a *column* is the list of Python floats of one P&L sample (already rounded to the
tensor dtype, target already subtracted in that dtype); ``eps`` is the machine epsilon of the dtype.
All tolerances returned are a-priori forward-error bounds (DESIGN 2.1): dtype eps x conditioning.
"""
import math
from fractions import Fraction as Fr
from typing import Callable, Dict, List, Optional, Sequence, Tuple

import mpmath as mp

DPS = 50


def tiny(eps: float) -> float:
    """Subnormal quantum of the dtype with machine epsilon eps: every result may additionally lose a few of these
    to gradual underflow (same allowance as in C01)."""
    return 2.0 ** -149 if eps > 1e-10 else 5e-324

NEGLIGIBLE_EXPONENT = 200  # exp(-200) ~ 1e-87 relative to a sum >= 1: far below the 50 digits carried


# =========================================================================================
# entropic risk measure, exponential and isoelastic utilities (mpmath)
# =========================================================================================
def entropic_mp(col: Sequence[float], a: float):
    """(1/a) log mean exp(-a x), evaluated as -m + (1/a) log mean exp(-a (x - m)), m = min x.

    The shift is an algebraic identity of the definition; with it every exponent is <= 0, so the
    oracle cannot overflow for any finite input.  Terms below exp(-200) relative to the leading
    term (which equals 1) are dropped: they change the sum by < 1e-86 relative."""
    with mp.workdps(DPS):
        A = mp.mpf(a)
        xs = [mp.mpf(x) for x in col]
        m = min(xs)
        s = mp.mpf(0)
        for x in xs:
            e = A * (x - m)
            if e <= NEGLIGIBLE_EXPONENT:
                s += mp.exp(-e)
        return -m + mp.log(s / len(xs)) / A


def entropic_tol(col: Sequence[float], a: float, eps: float, value: float) -> float:
    """Forward bound for (logsumexp(-a x) - log N)/a in the dtype.

    -a*x_i carries a relative rounding eps (a is rounded to the dtype, the product is rounded), so each
    exponent is off by <= eps*a|x_i| and the log of the sum by at most the largest of these; the
    N-term sum, exp, log, log N and the final division add (N+8) eps absolute on the log scale.
    Dividing by a: 4*eps*(max|x| + (N+8)/a) + 2*eps*|value|."""
    n = len(col)
    mx = max(abs(x) for x in col)
    return 4.0 * eps * (mx + (n + 8) / a) + 2.0 * eps * abs(value) + 1e-300


def exp_utility_mp(x: float, a: float):
    with mp.workdps(DPS):
        return -mp.exp(-mp.mpf(a) * mp.mpf(x))


def exp_utility_reltol(x: float, a: float, eps: float) -> float:
    """relative: exponent a*x rounded twice (a to dtype, product) -> 2*eps*a|x|, exp itself 4 eps."""
    return (2.0 * abs(a * x) + 4.0) * eps


def entropic_loss_mp(col: Sequence[float], a: float):
    """-mean u(x) with u(x) = -exp(-a x)."""
    with mp.workdps(DPS):
        return sum(-exp_utility_mp(x, a) for x in col) / len(col)


def entropic_loss_tol(col: Sequence[float], a: float, eps: float) -> float:
    n = len(col)
    with mp.workdps(DPS):
        t = sum(mp.exp(-mp.mpf(a) * mp.mpf(x)) * (2 * abs(a * x) + n + 8) for x in col) / n
        return float(t * eps) + 4 * tiny(eps)


def isoelastic_utility_mp(x: float, a: float):
    """x**(1-a) for a != 1, log x for a == 1 (x > 0)."""
    with mp.workdps(DPS):
        X = mp.mpf(x)
        if a == 1.0:
            return mp.log(X)
        return mp.power(X, 1 - mp.mpf(a))


def isoelastic_utility_abstol(x: float, a: float, eps: float) -> float:
    """pow: the exponent 1-a is rounded to the dtype, so x**(1-a) is off by eps*|(1-a) log x| relative,
    plus 4 eps for pow itself; log: 4 eps relative (x is exact) ."""
    with mp.workdps(DPS):
        u = isoelastic_utility_mp(x, a)
        if a == 1.0:
            return float(4 * eps * abs(u)) + 1e-300
        return float((2 * abs((1 - a) * mp.log(mp.mpf(x))) + 4) * eps * abs(u)) + 1e-300


def isoelastic_loss_mp(col: Sequence[float], a: float):
    with mp.workdps(DPS):
        return -sum(isoelastic_utility_mp(x, a) for x in col) / len(col)


def isoelastic_loss_tol(col: Sequence[float], a: float, eps: float) -> float:
    n = len(col)
    with mp.workdps(DPS):
        t = sum(isoelastic_utility_abstol(x, a, eps) + (n + 4) * eps * float(abs(isoelastic_utility_mp(x, a)))
                for x in col) / n
        return float(t) + 4 * tiny(eps)


# OCE utilities: name -> (mp evaluation, magnitude of the intermediate terms used for the error bound)
def _u_exp(y):
    return 1 - mp.exp(-y)


def _u_lin(y):
    return y


def _u_quad(y):
    return y - y * y / 2


def _u_pwl(y):
    return 2 * min(y, mp.mpf(0)) + max(y, mp.mpf(0)) / 2


OCE_UTILITIES: Dict[str, Tuple[Callable, Callable]] = {
    "exp": (_u_exp, lambda y: 1 + mp.exp(-y) * (2 + abs(y))),
    "linear": (_u_lin, lambda y: abs(y)),
    "quad": (_u_quad, lambda y: abs(y) + y * y),
    "pwl": (_u_pwl, lambda y: 2 * abs(y)),
}


def oce_mp(ys: Sequence[float], w: float, name: str):
    """w - mean u(y) where y = x - target + w was formed in the dtype by the caller."""
    u, _ = OCE_UTILITIES[name]
    with mp.workdps(DPS):
        return mp.mpf(w) - sum(u(mp.mpf(y)) for y in ys) / len(ys)


def oce_tol(ys: Sequence[float], w: float, name: str, eps: float, value: float) -> float:
    _, mag = OCE_UTILITIES[name]
    n = len(ys)
    with mp.workdps(DPS):
        t = sum(mag(mp.mpf(y)) for y in ys) / n
        return float((n + 8) * eps * t) + 4 * eps * (abs(w) + abs(value)) + 4 * tiny(eps)


# =========================================================================================
# order statistics: expected shortfall, value at risk (exact)
# =========================================================================================
BORDER = Fr(1, 10 ** 9)


def accepted_counts(p: float, n: int) -> List[int]:
    """Counts k of worst outcomes the quantifier accepts for level p: ceil(pN) computed exactly on the
    float p; if pN is within 1e-9 of an integer m (and not equal to it) both m and m+1 are accepted."""
    r = Fr(p) * n
    k = math.ceil(r)
    out = {k}
    m = round(r)
    if r != m and abs(r - m) <= BORDER:
        out.update({m, m + 1})
    return sorted(c for c in out if 1 <= c <= n) or [max(1, min(n, k))]


def pn_class(p: float, n: int) -> str:
    r = Fr(p) * n
    m = round(r)
    if r == m:
        return "pN:integral"
    if abs(r - m) <= BORDER:
        return "pN:borderline"
    return "pN:generic"


def es_exact(col: Sequence[float], k: int) -> Tuple[Fr, Fr]:
    """(-mean of the k smallest, mean |.| of them) exactly."""
    xs = sorted(Fr(x) for x in col)[:k]
    return -sum(xs) / k, sum(abs(x) for x in xs) / k


def es_tol(mean_abs: Fr, k: int, eps: float) -> float:
    return float((k + 4) * Fr(eps) * mean_abs) + 4 * tiny(eps)


def var_interval(col: Sequence[float], p: float, eps: float) -> Tuple[Fr, Fr, str]:
    """Accepted interval [lo, hi] for value_at_risk(col, p) as the statement prescribes it, and the class.

    r = pN evaluated exactly on the float p; x_(1) <= ... <= x_(N).
      r <= 1: the minimum; r > N-1: the maximum; r = k integral: x_(k);
      otherwise anything between x_(floor r) and x_(ceil r) (the statement fixes no interpolation rule).
    If r is within 1e-9 of an integer m without being equal to it (p = k/N is not representable) the level counts
    as m, and at the two branch boundaries (m = 1, m = N-1) either branch is accepted (borderline clause).
    For integral / borderline levels in the interior the code reaches x_(m) through a rank q*(N-1) computed in
    the dtype: the rank may be off by 2*eps*N (+1e-9 for the borderline case), i.e. the value by that fraction
    of the neighbouring gap.  Every value gets 4*eps*max|neighbour| for the interpolation arithmetic."""
    xs = sorted(Fr(x) for x in col)
    n = len(xs)
    r = Fr(p) * n
    m = round(r)
    exact = r == m
    near = abs(r - m) <= BORDER
    fuzz = 2 * Fr(eps) * n + (Fr(0) if exact else BORDER)

    def interp(q: Fr) -> Fr:
        q = min(max(q, Fr(0)), Fr(n - 1))
        i = math.floor(q)
        if i >= n - 1:
            return xs[-1]
        return xs[i] + (q - i) * (xs[i + 1] - xs[i])

    def with_tol(lo, hi, i0, i1, kind):
        i0, i1 = max(0, i0), min(n - 1, i1)
        t = 4 * Fr(eps) * max(abs(x) for x in xs[i0:i1 + 1]) + 4 * Fr(tiny(eps))
        return lo - t, hi + t, kind

    if n == 1:
        return xs[0], xs[0], "var:min"
    if near and exact:
        if m <= 1:
            return xs[0], xs[0], "var:min"
        if m >= n:
            return xs[-1], xs[-1], "var:max"
        pos = Fr(m - 1)
        return with_tol(interp(pos - fuzz), interp(pos + fuzz), m - 2, m, "var:kth")
    if near:
        # p is the float next to m/N: the level counts as m; at m = 1 the minimum branch and at m = N-1 the maximum
        # branch may or may not be taken (borderline clause), otherwise the value is x_(m) up to the rank fuzz
        if m >= n:
            return xs[-1], xs[-1], "var:max"
        m = max(m, 1)
        pos = Fr(m - 1)
        lo, hi = interp(pos - fuzz), interp(pos + fuzz)
        kind = "var:kth"
        if m == 1:
            lo, kind = xs[0], "var:branch-borderline"
        if m >= n - 1:
            hi, kind = xs[-1], "var:branch-borderline"
        return with_tol(lo, hi, m - 2, n - 1 if m >= n - 1 else m, kind)
    if r < 1:
        return xs[0], xs[0], "var:min"
    if r > n - 1:
        return xs[-1], xs[-1], "var:max"
    pos = r - 1
    i0, i1 = math.floor(pos - fuzz), math.ceil(pos + fuzz)
    return with_tol(xs[max(0, i0)], xs[min(n - 1, i1)], i0, i1, "var:interior")


# =========================================================================================
# quadratic CVaR: exact minimiser of  g(w) = w + lam * mean(max(-w - x, 0)^2)
# =========================================================================================
class QCVaR:
    """Exact analysis of one sample.  With t = -w:  h(t) = -t + (lam/N) * sum_{x_i < t} (t - x_i)^2, convex,
    piecewise quadratic with breakpoints at the sample points."""

    def __init__(self, col: Sequence[float], lam: float):
        self.x = sorted(Fr(v) for v in col)
        self.n = len(self.x)
        self.lam = Fr(lam)
        n = self.n
        self.S = [Fr(0)]
        self.Q = [Fr(0)]
        for v in self.x:
            self.S.append(self.S[-1] + v)
            self.Q.append(self.Q[-1] + v * v)
        self.mean = self.S[n] / n
        self.range = self.x[-1] - self.x[0]
        self.maxdev = self.x[-1] - self.mean
        # K1 region (DESIGN section 6): max(x - mean) <= 1/(2 lam)
        self.in_k1 = self.maxdev <= 1 / (2 * self.lam)
        self.tstar, self.gmin = self._minimise()

    def h(self, t: Fr) -> Fr:
        """objective at w = -t, exact"""
        lam, n = self.lam, self.n
        s = Fr(0)
        for v in self.x:
            if v < t:
                s += (t - v) ** 2
            else:
                break
        return -t + lam * s / n

    def _minimise(self) -> Tuple[Fr, Fr]:
        """segment by segment: on t <= x_1 h = -t (minimum at x_1); on [x_k, x_{k+1}] (x_{N+1} = inf)
        h = -t + (lam/N)(k t^2 - 2 t S_k + Q_k) with vertex (N/(2 lam) + S_k)/k clamped to the segment."""
        x, n, lam = self.x, self.n, self.lam
        best_t, best = x[0], -x[0]
        for k in range(1, n + 1):
            tv = (Fr(n) / (2 * lam) + self.S[k]) / k
            lo = x[k - 1]
            t = max(tv, lo)
            if k < n:
                t = min(t, x[k])
            val = -t + lam * (k * t * t - 2 * t * self.S[k] + self.Q[k]) / n
            if val < best:
                best_t, best = t, val
        return best_t, best

    def shortfall_inverse(self, tau: Fr) -> Fr:
        """t with mean(max(t - x, 0)) = tau (> 0); increasing piecewise linear -> exact."""
        x, n = self.x, self.n
        for k in range(1, n + 1):
            t = (n * tau + self.S[k]) / k
            if k == n or t <= x[k]:
                return t
        raise AssertionError

    def msq(self, t: Fr) -> Fr:
        return (self.h(t) + t) / self.lam

    def tolerances(self, precision: float, eps: float, level_relerr: float = 0.0) -> Optional[Tuple[Fr, Fr]]:
        """(tol_below, tol_above) for the value returned by a bisection on w with the given precision,
        or None when the dtype cannot resolve the stationarity condition at all.

        The code bisects the decreasing shortfall function f(w) = mean(max(-w - x, 0)) for the level
        1/(2 lam), evaluated in floats with an error of at most eta = (N+8)*eps*range (N-term mean of
        numbers <= range).  The point it returns lies within `precision` (plus one ulp) of a point where
        the float f crosses the level, i.e. of the exact interval f^-1([level - eta, level + eta]).
        g is convex, so its excess over the minimum on that widened interval is attained at an end:
        that excess (exactly: the second-order term lam*frac*(precision)^2 plus the eta-terms) is the
        one-sided tolerance above the minimum.  Below the minimum only the rounding of the evaluation
        itself can act: (N+8)*eps*(|w| + lam*mean(.)^2) in centred coordinates, eps*range for the
        centring of the sample (the value is 1-Lipschitz in the sample), 2*eps*|value| for the final
        subtraction of the mean."""
        e = Fr(eps)
        level = 1 / (2 * self.lam)
        # level_relerr: the code keeps 1/(2 lam) as a default-dtype (float32) tensor whatever the input dtype
        eta = (self.n + 8) * e * self.range + Fr(level_relerr) * level
        if level - eta <= 0:
            return None
        t_hi = self.shortfall_inverse(level + eta)
        t_lo = self.shortfall_inverse(level - eta)
        pm = Fr(precision) * (1 + Fr(1, 1000)) + 4 * e * (self.range + abs(self.tstar - self.mean))
        excess = max(self.h(t_lo - pm), self.h(t_hi + pm)) - self.gmin
        tc = abs(self.tstar - self.mean)
        rnd = 2 * (self.n + 8) * e * (tc + self.lam * self.msq(self.tstar)) + 2 * e * self.range \
            + 2 * e * abs(self.gmin) + Fr(1, 10 ** 300)
        return rnd, rnd + excess


def qcvar_precision(max_range: float) -> float:
    """The bisection precision quadratic_cvar derives from the widest column:
    1e-6 * 10**int(log10(range + 2e-8)); when the range is within rounding of a power of ten the larger of
    the two possible exponents is used (the tolerance must not depend on which side the float landed)."""
    r = max_range + 2e-8
    e = math.log10(r)
    k = max(int(e - 1e-6), int(e + 1e-6))  # int() truncates towards zero, as in the code under test
    return 1e-6 * 10.0 ** k


def qcvar_precision_may_be_unreachable(col: Sequence[float], eps: float) -> bool:
    """A-priori (conservative) test whether the precision above may be finer than the float spacing of
    the bisection bracket: the bracket lives at |w| <= range + |float mean - mean| <= range + (N+2)*eps*max|x|,
    where consecutive floats are up to eps*that apart."""
    n = len(col)
    lo, hi = min(col), max(col)
    rng = hi - lo
    m = max(abs(lo), abs(hi))
    a = rng + (n + 2) * eps * m
    pmin = 1e-6 * 10.0 ** math.floor(math.log10(rng + 2e-8))  # <= the precision used (int() truncates up for <1)
    return eps * a > pmin
