"""C18 - Black-Scholes functions are total at maturity and at zero volatility."""
import itertools
import math

import torch
from hypothesis import strategies as st

from ..core import Sub
from . import _batch
from ..gens import DTYPES, build_primary, fl, primary_spec, seed_s

PROPERTY_ID = "C18"
ASSUMPTIONS = [
    "with w = v*sqrt(t) exactly 0 the price must equal the certain payoff to 1e-12*scale (float64) / 1e-6*scale (float32); for tiny w "
    "(<= 1e-5) within 1e-9*scale + 2*w*spot (the time value is O(w*spot))",
    "delta limits are asserted only away from the strike (|log-moneyness| > 20 w); at the strike only finiteness and the [0,1] / [-1,0] range",
    "K3 (known finding): bs_lookback_delta (autograd) is NaN when t == 0 or v == 0 exactly; BS/WW hedgers of lookback options and WW hedgers of "
    "binary options are NaN on paths with a step of exactly zero volatility - those paths are excluded by construction and counted",
]

EPS_OF = {"float32": 2.0 ** -23, "float64": 2.0 ** -52}
# (1e-30 x 1e-31 and 1e-300 x 1e-200: both arguments non-zero, their product v*sqrt(t) underflows to 0 in float32 / float64)
TS = [0.0, -0.0, 1e-300, 1e-30, 1e-12, 1e-6, 0.1, 1.0]
VS = [0.0, -0.0, 1e-200, 1e-31, 1e-12, 1e-3, 0.2]
SS = [0.0, 1e-9, -1e-9, 0.01, -0.01, 0.3, -0.3, 3.0, -3.0]
DMS = [0.0, 1e-9, 0.05, 0.5, 4.0]
KS = [1.0, 0.5, 2.0]


def grid_cases(tier):
    cases = []
    for t, v in itertools.product(TS, VS):
        w = v * math.sqrt(t)
        if w > 1e-5:
            continue
        for K in KS:
            for dtype in ("float64", "float32"):
                for shape in ("vector", "scalar-t", "broadcast"):
                    cases.append({"t": t, "v": v, "K": K, "dtype": dtype, "shape": shape})
    return cases


def _payoffs(S, M, K):
    return {"call": max(S - K, 0.0), "put": max(K - S, 0.0), "lb": max(max(M, S) - K, 0.0)}


def check_grid(case, ctx):
    import pfhedge.nn.functional as F
    from pfhedge.nn import BSAmericanBinaryOption, BSEuropeanBinaryOption, BSEuropeanOption, BSLookbackOption

    dt = DTYPES[case["dtype"]]
    t, v, K = case["t"], case["v"], case["K"]
    w = v * math.sqrt(t)
    exact = w == 0.0
    # region of known finding K3: v*sqrt(t) is zero or so small that its cube underflows in the dtype
    k3_region = bool((torch.tensor(v, dtype=dt) * torch.tensor(t, dtype=dt).sqrt()).pow(3).item() == 0.0)
    rel = 1e-12 if case["dtype"] == "float64" else 1e-6
    pts = [(s, s + dm) for s in SS for dm in DMS]
    s_t = torch.tensor([p[0] for p in pts], dtype=dt)
    m_t = torch.tensor([p[1] for p in pts], dtype=dt)
    if case["shape"] == "vector":
        t_t, v_t = torch.full_like(s_t, t), torch.full_like(s_t, v)
    elif case["shape"] == "scalar-t":
        t_t, v_t = torch.tensor(t, dtype=dt), torch.tensor(v, dtype=dt)
    else:
        t_t, v_t = torch.tensor([t], dtype=dt), torch.tensor([v], dtype=dt)
    s_l, m_l = s_t.tolist(), m_t.tolist()
    euro, binm = BSEuropeanOption(strike=K), BSEuropeanBinaryOption(strike=K)
    eurp, binp = BSEuropeanOption(call=False, strike=K), BSEuropeanBinaryOption(call=False, strike=K)
    abm, lbm = BSAmericanBinaryOption(strike=K), BSLookbackOption(strike=K)

    def run(name, fn):
        with ctx.sut("C18/" + name):
            out = fn()
        out = out.expand(len(pts)) if out.dim() and out.shape[0] == 1 and len(pts) > 1 else out
        vals = out.reshape(-1).tolist()
        if len(vals) != len(pts):
            ctx.fail("C18/shape", f"{name}: {len(vals)} values for {len(pts)} points")
            return None
        for i, x in enumerate(vals):
            if x != x:
                ctx.fail("C18/nan", f"{name} is NaN at log-moneyness {s_l[i]!r}, max {m_l[i]!r}, t={t!r}, v={v!r}, strike {K}",
                         fn=name, t=t, v=v, s=s_l[i], m=m_l[i], exact_boundary=exact, k3_region=k3_region)
                return None
        return vals

    def want_price(kind, i):
        S, M = K * math.exp(s_l[i]), K * math.exp(m_l[i])
        s, m = s_l[i], m_l[i]
        if kind == "call":
            return max(S - K, 0.0), S
        if kind == "put":
            return max(K - S, 0.0), S
        if kind == "bin_call":
            return (None if s == 0 else (1.0 if s > 0 else 0.0)), 1.0
        if kind == "bin_put":
            return (None if s == 0 else (1.0 if s < 0 else 0.0)), 1.0
        if kind == "ab":
            if m >= 0:
                return 1.0, 1.0
            return (None if s == 0 else 0.0), 1.0
        if kind == "lb":
            return max(max(M, S) - K, 0.0), max(M, S)

    def prices(name, kind, fn):
        vals = run(name, fn)
        if vals is None:
            return
        for i, x in enumerate(vals):
            wv, scale = want_price(kind, i)
            if wv is None:
                continue
            tol = rel * max(scale, K) + (0.0 if exact else 1e-9 * max(scale, K) + 2 * w * max(scale, K))
            near = abs(s_l[i]) <= 20 * w or (kind in ("ab", "lb") and abs(m_l[i]) <= 20 * w)
            if kind == "ab" and m_l[i] >= 0:
                ok = abs(x - 1.0) <= tol  # the barrier has been reached: a discrete fact, no tolerance in moneyness
            elif kind.startswith("bin") or kind == "ab":
                if near:
                    ok = -tol <= x <= 1 + tol
                else:
                    ok = abs(x - wv) <= tol
            else:
                ok = abs(x - wv) <= tol
            if not ctx.check(ok, "C18/price-is-not-payoff", f"{name} = {x!r} at s={s_l[i]!r}, m={m_l[i]!r}, t={t!r}, v={v!r}, K={K}: "
                             f"the certain payoff is {wv!r}", fn=name):
                return

    def deltas(name, kind, fn):
        vals = run(name, fn)
        if vals is None:
            return
        for i, x in enumerate(vals):
            s, m = s_l[i], m_l[i]
            far = abs(s) > 20 * w and s != 0
            S = K * math.exp(s)
            if kind == "call":
                wv = (1.0 if s > 0 else 0.0) if far else None
                rng = (0.0, 1.0)
            elif kind == "put":
                wv = (0.0 if s > 0 else -1.0) if far else None
                rng = (-1.0, 0.0)
            elif kind in ("bin_call", "bin_put"):
                wv = 0.0 if far else None
                rng = None
            elif kind == "ab":
                wv = 0.0 if (far or m >= 0) and not (m < 0 and abs(s) <= 20 * w) else None
                rng = None
            elif kind == "lb":
                # max(M_run, S) - K with S strictly below the running max: insensitive to S
                # (autogreek differentiates through spot = K*exp(s): the gap must also be resolvable in the dtype)
                wv = 0.0 if (m - s) > max(20 * w, 8 * EPS_OF[case["dtype"]]) else None
                rng = None
            tol = 1e-6 / min(S, 1.0) if not exact else 1e-9
            if wv is not None:
                if not ctx.check(abs(x - wv) <= tol, "C18/delta-limit", f"{name} = {x!r} at s={s!r}, m={m!r}, t={t!r}, v={v!r}: limit is {wv}", fn=name):
                    return
            elif rng is not None:
                if not ctx.check(rng[0] - 1e-9 <= x <= rng[1] + 1e-9, "C18/delta-limit", f"{name} = {x!r} outside {rng}", fn=name):
                    return

    kw = dict(log_moneyness=s_t, time_to_maturity=t_t, volatility=v_t)
    kwm = dict(log_moneyness=s_t, max_log_moneyness=m_t, time_to_maturity=t_t, volatility=v_t)
    prices("bs_european_price(call)", "call", lambda: F.bs_european_price(s_t, t_t, v_t, strike=K))
    prices("bs_european_price(put)", "put", lambda: F.bs_european_price(s_t, t_t, v_t, strike=K, call=False))
    prices("bs_european_binary_price(call)", "bin_call", lambda: F.bs_european_binary_price(s_t, t_t, v_t))
    prices("bs_european_binary_price(put)", "bin_put", lambda: F.bs_european_binary_price(s_t, t_t, v_t, call=False))
    prices("bs_american_binary_price", "ab", lambda: F.bs_american_binary_price(s_t, m_t, t_t, v_t))
    prices("bs_lookback_price", "lb", lambda: F.bs_lookback_price(s_t, m_t, t_t, v_t, strike=K))
    prices("BSEuropeanOption.price", "call", lambda: euro.price(**kw))
    prices("BSEuropeanOption(put).price", "put", lambda: eurp.price(**kw))
    prices("BSEuropeanBinaryOption.price", "bin_call", lambda: binm.price(**kw))
    prices("BSEuropeanBinaryOption(put).price", "bin_put", lambda: binp.price(**kw))
    prices("BSAmericanBinaryOption.price", "ab", lambda: abm.price(**kwm))
    prices("BSLookbackOption.price", "lb", lambda: lbm.price(**kwm))
    deltas("bs_european_delta(call)", "call", lambda: F.bs_european_delta(s_t, t_t, v_t))
    deltas("bs_european_delta(put)", "put", lambda: F.bs_european_delta(s_t, t_t, v_t, call=False))
    deltas("bs_european_binary_delta(call)", "bin_call", lambda: F.bs_european_binary_delta(s_t, t_t, v_t, strike=K))
    deltas("bs_european_binary_delta(put)", "bin_put", lambda: F.bs_european_binary_delta(s_t, t_t, v_t, call=False, strike=K))
    deltas("bs_american_binary_delta", "ab", lambda: F.bs_american_binary_delta(s_t, m_t, t_t, v_t, strike=K))
    deltas("BSEuropeanOption.delta", "call", lambda: euro.delta(**kw))
    deltas("BSEuropeanOption(put).delta", "put", lambda: eurp.delta(**kw))
    deltas("BSEuropeanBinaryOption.delta", "bin_call", lambda: binm.delta(**kw))
    deltas("BSAmericanBinaryOption.delta", "ab", lambda: abm.delta(**kwm))
    deltas("bs_lookback_delta", "lb", lambda: F.bs_lookback_delta(s_t.clone(), m_t, t_t, v_t, strike=K))
    deltas("BSLookbackOption.delta", "lb", lambda: lbm.delta(log_moneyness=s_t.clone(), max_log_moneyness=m_t, time_to_maturity=t_t, volatility=v_t))
    ctx.nontrivial(True)
    ctx.cls("boundary:" + ("exact" if exact else "tiny"), "dtype:" + case["dtype"], "shape:" + case["shape"])


def known_k3(case, v):
    d = v.get("detail") or {}
    return v["label"] == "C18/nan" and d.get("fn") in ("bs_lookback_delta", "BSLookbackOption.delta") and bool(d.get("k3_region"))


def known_k3_hedger(case, v):
    d = v.get("detail") or {}
    return v["label"] == "C18/hedger/non-finite" and bool(d.get("k3_combo")) and bool(d.get("zero_vol_at_first_nan"))


def known_k6(case, v):
    d = v.get("detail") or {}
    return v["label"] == "C18/hedger/non-finite" and bool(d.get("binary_atm_zero_vol"))


KNOWN = {"K3": known_k3, "K3-hedger": known_k3_hedger, "K6": known_k6}


def _k3_single(name, point, dtype):
    """the lookback delta of a single element is itself NaN inside the K3 region: nothing to compare a batch with"""
    if name != "lookback_delta":
        return False
    dt = DTYPES[dtype]
    return bool((torch.tensor(point["v"], dtype=dt) * torch.tensor(point["t"], dtype=dt).sqrt()).pow(3).item() == 0.0)


# ------------------------------------------------------------------ rejection of negative arguments
@st.composite
def negative_case(draw):
    return {"which": draw(st.sampled_from(["t", "v", "both"])), "neg": draw(st.sampled_from([-1e-12, -1e-6, -0.1, -1.0])),
            "s": draw(fl(-1.0, 1.0)), "K": draw(st.sampled_from([1.0, 0.5, 2.0])), "mixed": draw(st.booleans()),
            "dtype": draw(st.sampled_from(["float32", "float64"])),
            # the offending argument as a tensor element, a 0-dim tensor, or a plain Python number (all three forms are accepted for valid values)
            "form": draw(st.sampled_from(["tensor", "tensor", "scalar0d", "float", "int"])),
            # the other of the two arguments at the boundary as well (a negative volatility at maturity, a negative time at zero volatility)
            "other": draw(st.sampled_from([None, None, 0.0, -0.0, 1e-300]))}


def check_negative(case, ctx):
    import pfhedge.nn.functional as F

    dt = DTYPES[case["dtype"]]
    n = 3 if case["mixed"] else 1
    s = torch.full((n,), case["s"], dtype=dt)
    m = s + 0.1
    t = torch.full((n,), 0.5, dtype=dt)
    v = torch.full((n,), 0.2, dtype=dt)
    form = case.get("form", "tensor")

    def offending(x):
        if form == "tensor":
            x[-1] = case["neg"]
            return x
        if form == "scalar0d":
            return torch.tensor(case["neg"], dtype=dt)
        return -1 if form == "int" else case["neg"]

    if case.get("other") is not None and case["which"] != "both":
        if case["which"] == "t":
            v = torch.full((n,), case["other"], dtype=dt)
        else:
            t = torch.full((n,), case["other"], dtype=dt)
    if case["which"] in ("t", "both"):
        t = offending(t)
    if case["which"] in ("v", "both"):
        v = offending(v)
    K = case["K"]
    fns = {
        "bs_european_price": lambda: F.bs_european_price(s, t, v, strike=K),
        "bs_european_delta": lambda: F.bs_european_delta(s, t, v),
        "bs_european_binary_price": lambda: F.bs_european_binary_price(s, t, v),
        "bs_european_binary_delta": lambda: F.bs_european_binary_delta(s, t, v, strike=K),
        "bs_american_binary_price": lambda: F.bs_american_binary_price(s, m, t, v),
        "bs_american_binary_delta": lambda: F.bs_american_binary_delta(s, m, t, v, strike=K),
        "bs_lookback_price": lambda: F.bs_lookback_price(s, m, t, v, strike=K),
        "bs_lookback_delta": lambda: F.bs_lookback_delta(s.clone(), m, t, v, strike=K),
        "d1": lambda: F.d1(s, t, v), "d2": lambda: F.d2(s, t, v),
    }
    for name, fn in fns.items():
        ctx.expect_raises("C18/negative-accepted", (ValueError,), fn)
    ctx.nontrivial(True)
    ctx.cls("which:" + case["which"], "mixed:" + str(case["mixed"]), "form:" + form, "other-at-boundary:" + str(case.get("other") is not None))


# ------------------------------------------------------------------ hedger sweep
STRESS = {
    "HestonStock": [{}, {"kappa": 0.5, "theta": 0.04, "sigma": 1.5, "rho": -0.7}, {"kappa": 2.0, "theta": 0.01, "sigma": 1.0, "rho": 0.5}],
    "BrownianStock": [{}, {"sigma": 0.01}, {"sigma": 1.5}, {"sigma": 0.0}],  # sigma = 0: deterministic paths, every step has zero volatility
    "MertonJumpStock": [{}, {"sigma": 0.05, "jump_per_year": 200.0, "jump_std": 0.05}],
    "KouJumpStock": [{}, {"sigma": 0.05, "jump_per_year": 200.0}],
    "RoughBergomiStock": [{}, {"eta": 2.5, "xi": 0.01}],
    "LocalVolatilityStock": [{}],
}
K3_COMBOS = {("bs", "LookbackOption"), ("ww", "LookbackOption"), ("ww", "EuropeanBinaryOption"), ("ww", "AmericanBinaryOption")}


@st.composite
def hedger_case(draw):
    typ = draw(st.sampled_from(sorted(STRESS)))
    params = draw(st.sampled_from(STRESS[typ]))
    ul = {"type": typ, "params": params, "dt": draw(st.sampled_from([1 / 250, 1 / 250, 1 / 52])),
          "cost": draw(st.sampled_from([0.0, 1e-4, 1e-2])), "dtype": draw(st.sampled_from([None, "float64"]))}
    if typ == "LocalVolatilityStock":
        ul["sigma_fn"] = draw(st.sampled_from(["flat", "smile"]))
    deriv = draw(st.sampled_from(["EuropeanOption", "LookbackOption", "EuropeanBinaryOption", "AmericanBinaryOption"]))
    call = True if deriv in ("LookbackOption", "AmericanBinaryOption") else draw(st.booleans())
    return {"ul": ul, "deriv": deriv, "call": call, "strike": draw(st.sampled_from([1.0, 1.0, 0.9, 1.1, 1.0 + 2.0 ** -10])),
            "steps": draw(st.integers(2, 30)), "model": draw(st.sampled_from(["bs", "ww"])), "a": draw(st.sampled_from([1.0, 0.1, 10.0])),
            "n_paths": draw(st.integers(8, 200)), "sim_seed": draw(seed_s)}


def check_hedger(case, ctx):
    import pfhedge.instruments as I
    from pfhedge.nn import BlackScholes, Hedger, WhalleyWilmott

    ul = build_primary(case["ul"])
    deriv = getattr(I, case["deriv"])(ul, call=case["call"], strike=case["strike"], maturity=case["steps"] * ul.dt)
    model = BlackScholes(deriv) if case["model"] == "bs" else WhalleyWilmott(deriv, a=case["a"])
    hedger = Hedger(model, model.inputs())
    if case["sim_seed"] % 3 == 0:
        # a hedger is used for many batches: an earlier batch (other paths, other batch size) precedes the checked one
        torch.manual_seed(case["sim_seed"] + 1)
        with ctx.sut("C18/hedger/simulate"):
            deriv.simulate(n_paths=max(2, case["n_paths"] // 2))
        with torch.no_grad():
            with ctx.sut("C18/hedger/compute"):
                hedger.compute_pl(deriv)
        ctx.cls("hedger:reused")
    torch.manual_seed(case["sim_seed"])
    with ctx.sut("C18/hedger/simulate"):
        deriv.simulate(n_paths=case["n_paths"])
    with torch.set_grad_enabled(case["sim_seed"] % 2 == 1):
        with ctx.sut("C18/hedger/compute"):
            hedge = hedger.compute_hedge(deriv).detach()
            pnl = hedger.compute_pl(deriv).detach()
    N, H, Tn = hedge.shape
    ctx.check((N, H, Tn) == (case["n_paths"], 1, ul.spot.shape[1]), "C18/hedger/shape", f"hedge shape {tuple(hedge.shape)}")
    vol = ul.volatility
    combo = (case["model"], case["deriv"]) in K3_COMBOS
    zero_vol_path = (vol[:, :-1] == 0).any(dim=1)
    bad_h = ~torch.isfinite(hedge).all(dim=(1, 2))
    bad_p = ~torch.isfinite(pnl)
    bad = bad_h | bad_p
    if combo:
        # known finding K3: excluded by construction on paths that contain a zero-volatility step
        n_ex = int((bad & zero_vol_path).sum())
        if n_ex:
            ctx.exclude("K3:zero-volatility-path", n_ex)
            ctx.cls("k3-paths-present")
        bad = bad & ~zero_vol_path
    # known finding K6: the Black-Scholes delta of a European binary exactly at the money with no volatility is +inf (its
    # limiting value): excluded by construction on such steps, kept visible by a committed replay
    atm0 = ((ul.spot[:, :-1] == case["strike"]) & (vol[:, :-1] == 0)).any(dim=1)
    if case["model"] == "bs" and case["deriv"] == "EuropeanBinaryOption" and not case.get("k6"):
        n_ex = int((bad & atm0).sum())
        if n_ex:
            ctx.exclude("K6:binary-at-the-money-zero-volatility", n_ex)
        bad = bad & ~atm0
    if bool(bad.any()):
        n = int(bad.nonzero()[0])
        steps = (~torch.isfinite(hedge[n, 0])).nonzero().flatten().tolist()
        first = steps[0] if steps else None
        ctx.fail("C18/hedger/non-finite",
                 f"{case['model']} hedger of {case['deriv']} on {case['ul']['type']}: non-finite hedge/P&L on path {n} "
                 f"(first non-finite hedge step {first} of {Tn}, P&L {pnl[n].item()!r})",
                 k3_combo=combo, zero_vol_at_first_nan=bool(first is not None and first < Tn and vol[n, min(first, Tn - 1)] == 0),
                 binary_atm_zero_vol=bool(case["model"] == "bs" and case["deriv"] == "EuropeanBinaryOption" and atm0[n]),
                 path=n, step=first)
    term = ul.spot[:, -1] / case["strike"]
    ctx.nontrivial(bool(((term - 1).abs() < 0.01).any()))
    ctx.cls("model:" + case["model"], "deriv:" + case["deriv"], "ul:" + case["ul"]["type"],
            "params:" + ("default" if not case["ul"]["params"] else "stressed"), "zero-vol-paths:" + str(bool(zero_vol_path.any())))


# ------------------------------------------------------------------ known-finding replays (K3)
def check_k3_hedger_demo(case, ctx):
    """Deterministic demonstration that K3 still reproduces: a lookback BS hedger on a path with a zero-volatility step."""
    import pfhedge.instruments as I
    from pfhedge.nn import BlackScholes, Hedger

    h = I.HestonStock(dtype=torch.float64)
    d2 = I.LookbackOption(h, maturity=4 / 250)
    h.register_buffer("spot", torch.tensor([[1.0, 1.01, 0.99, 1.02, 1.0]], dtype=torch.float64))
    h.register_buffer("variance", torch.tensor([[0.04, 0.0, 0.01, 0.02, 0.03]], dtype=torch.float64))
    m = BlackScholes(d2)
    with torch.no_grad():
        with ctx.sut("C18/hedger/k3-demo"):
            hedge = Hedger(m, m.inputs()).compute_hedge(d2)
    if not torch.isfinite(hedge).all():
        ctx.fail("C18/hedger/non-finite", "BS hedger of a lookback option is NaN on a path with a zero-volatility step",
                 k3_combo=True, zero_vol_at_first_nan=True)
    ctx.nontrivial(True)


META = {
    "technique": "property-based testing: exhaustive boundary grid (t=0 / v=0 / tiny) against the certain payoff and limiting deltas, generated rejection cases, and Hypothesis-generated BS/WW hedging runs checked for finiteness",
    "level_text": "Exploration, exhaustive over a stated boundary grid: every (t, v) pair with v*sqrt(t) <= 1e-5 x 45 moneyness/running-max points x 3 strikes x 2 dtypes x 3 broadcast shapes for all price and delta functions and modules; negative arguments must raise ValueError; BlackScholes/WhalleyWilmott hedgers of the 4 option types on 6 stock models (default and stressed parameters, up to 200 paths x 30 steps) must give finite hedges and P&L. K3 is excluded by construction and kept visible by committed replays.",
}

SUBS = [
    Sub("boundary_grid", check_grid,
        rule="exhaustive grid: (t,v) in {0,-0.0,1e-300,1e-30,1e-12,1e-6,0.1,1}x{0,-0.0,1e-200,1e-31,1e-12,1e-3,0.2} with v*sqrt(t)<=1e-5, strikes {1,0.5,2}, dtypes f32/f64, "
             "argument shapes vector/0-dim/broadcast; each case evaluates 23 price/delta functions and modules on 45 (log-moneyness, "
             "running max) points incl. 0, +-1e-9, +-3. Every case is non-trivial (all elements have t=0, v=0 or tiny w).",
        enumerate=grid_cases, exhaustive=True),
    Sub("negative_arguments", check_negative,
        rule="negative time to maturity and/or volatility (possibly only one element of a tensor) must raise ValueError in d1/d2 and all price/delta functions",
        strategy=lambda tier: negative_case(), examples={"quick": 200, "thorough": 2000}),
    Sub("hedger_sweep", check_hedger,
        rule="BlackScholes / WhalleyWilmott(a in {0.1,1,10}) hedger x 4 option types x 6 stock models with default and stressed parameters x "
             "strikes ITM/ATM/OTM x costs {0,1e-4,1e-2} x 8..200 paths x 2..30 steps. Non-trivial: some path ends within 1% of the strike.",
        strategy=lambda tier: hedger_case(), examples={"quick": 1600, "thorough": 16000}),
    Sub("mixed_batches", lambda case, ctx: _batch.check_batch(case, ctx, _batch.PRICES + _batch.DELTAS + ["lookback_delta"], "C18", skip=_k3_single),
        rule="2..7 points per call, boundary points (t or v exactly 0 or tiny) mixed with interior points, log-moneyness incl. exact 0, running "
             "maximum on both sides of the strike, as vector / column / matrix: every price and delta at an element of the batch must equal the "
             "value of that element evaluated alone (which boundary_grid and C07 tie to the payoff / the expectation). Non-trivial: the batch "
             "mixes boundary and interior elements or hit and not-hit barriers.",
        strategy=lambda tier: _batch.batch_case(boundary=True), examples={"quick": 1500, "thorough": 15000}),
    Sub("k3_demo", check_k3_hedger_demo, rule="fixed demonstration input for known finding K3 (only run through its committed replay)",
        enumerate=lambda tier: [], exhaustive=False),
]
