import torch, warnings
warnings.filterwarnings("ignore")
from pfhedge.stochastic import *
gens={'bm':generate_brownian,'gbm':generate_geometric_brownian,'cir':generate_cir,'heston':generate_heston,'vas':lambda n,t:generate_vasicek(n,t),'merton':generate_merton_jump,'kou':generate_kou_jump,'rb':generate_rough_bergomi,'lv':lambda n,t:generate_local_volatility_process(n,t,lambda tt,s:0.2*torch.ones_like(s))}
for name,g in gens.items():
    for T in [1,2,3]:
        try:
            o=g(3,T); 
            sh=o.shape if isinstance(o,torch.Tensor) else [x.shape for x in o]
            print(name,T,sh)
        except Exception as e: print(name,T,"ERR",type(e).__name__,str(e)[:100])
print(generate_merton_jump(2,4,jump_per_year=0.0))
print(generate_kou_jump(2,4,jump_per_year=0.0))
from pfhedge.instruments import *
for P in [BrownianStock,HestonStock,CIRRate,MertonJumpStock,KouJumpStock,RoughBergomiStock]:
    p=P(dt=0.1)
    for h in [0.0,0.05,0.1]:
        try: p.simulate(2,time_horizon=h); print(P.__name__,h,p.spot.shape)
        except Exception as e: print(P.__name__,h,"ERR",type(e).__name__,str(e)[:100])
