"""C14 - Loss gradients through the hedger are the true gradients."""
import torch
from hypothesis import strategies as st

from ..core import Sub
from ..gens import build_scenario, scenario, seed_s, simulate

PROPERTY_ID = "C14"
ASSUMPTIONS = [
    "float64; directional derivatives by 5-point central differences at two step sizes (1e-3, 5e-4) on the same simulated buffers; "
    "a direction counts only if every stencil point lies on the same side of every kink as the base point (signs of all trades and of the opening trade when costs are charged, top-k membership for ES, signs of residuals for L1) and the two step sizes agree to 1e-7 relative; otherwise it is discarded and counted",
    "tolerance 1e-6 relative + 1e-9 absolute; quadratic CVaR 2e-4 relative (its bisection leaves |dh/domega| <= 2*lam*precision on a path autograd follows)",
    "models are smooth (Linear, tanh MLP, tanh-recurrent user module); ReLU kinks are not part of 'generic parameter points'",
]


def shifted_entropic(x):  # utility for OCE
    return -(-x).exp()


def build_criterion(c):
    from pfhedge.nn import EntropicLoss, EntropicRiskMeasure, ExpectedShortfall, IsoelasticLoss, QuadraticCVaR
    from pfhedge.nn.modules.loss import OCE

    k = c["kind"]
    if k == "entropic_rm":
        return EntropicRiskMeasure(c["a"])
    if k == "entropic_loss":
        return EntropicLoss(c["a"])
    if k == "isoelastic":
        return IsoelasticLoss(c["a"])
    if k == "es":
        return ExpectedShortfall(c["p"])
    if k == "qcvar":
        return QuadraticCVaR(c["lam"])
    if k == "oce":
        m = OCE(shifted_entropic).double()
        with torch.no_grad():
            m.w.fill_(c["w"])
        return m
    if k == "mse":
        return torch.nn.MSELoss()
    if k == "l1":
        return torch.nn.L1Loss()
    raise ValueError(k)


@st.composite
def grad_case(draw):
    sc = draw(scenario(models=("linear", "mlp_tanh", "recurrent", "recurrent", "linear_sigmoid", "mlp_tanh_out", "capped"), dtype="float64", min_steps=3, max_steps=8,
                       max_paths=32, hedge_kinds=("default", "ul", "ul+listed"), extra_features=False))
    sc["n_paths"] = max(4, sc["n_paths"])
    if sc["model"] != "recurrent" and draw(st.integers(0, 4)) == 0:
        # a parameter-free module (fed with the previous hedge) wrapped as a feature: the loss depends on the
        # parameters through that feature as well
        sc["inputs"] = [f for f in sc["inputs"] if f != "prev_hedge"] + ["__band_feature"]
    if sc["ul"]["type"] == "VasicekRate":
        sc["ul"]["type"], sc["ul"]["params"] = "BrownianStock", {}
    if sc["deriv"]["type"] == "VarianceSwap" and sc["ul"]["type"] == "CIRRate":
        sc["deriv"]["type"] = "EuropeanOption"
        sc["deriv"]["call"], sc["deriv"]["strike"] = True, 1.0
    k = draw(st.sampled_from(["entropic_rm", "entropic_loss", "isoelastic", "es", "qcvar", "oce", "mse", "l1"]))
    c = {"kind": k}
    if k in ("entropic_rm", "entropic_loss"):
        c["a"] = draw(st.sampled_from([1.0, 0.5, 3.0]))
    if k == "isoelastic":
        c["a"] = draw(st.sampled_from([1.0, 0.5]))
    if k == "es":
        c["p"] = draw(st.sampled_from([0.1, 0.3, 0.5, 1.0]))
    if k == "qcvar":
        c["lam"] = draw(st.sampled_from([1.0, 5.0, 10.0]))
    if k == "oce":
        c["w"] = draw(st.sampled_from([0.0, 0.3, -0.2]))
    sc["crit"] = c
    sc["dir_seed"] = draw(seed_s)
    sc["mode"] = draw(st.sampled_from(["train", "eval"]))  # e.g. a custom loop after fit(validation=True) runs in eval mode
    return sc


def check_grad(case, ctx):
    objs = build_scenario(case)
    deriv, hedger, hedge = objs["derivative"], objs["hedger"], objs["hedge"]
    c = case["crit"]
    hedger.criterion = build_criterion(c)
    hedger.train(case.get("mode", "train") == "train")
    if c["kind"] == "isoelastic":
        # isoelastic utility needs a positive P&L: the derivative pays 5 less (a user clause)
        deriv.add_clause("shift", lambda d, payoff: payoff - 5.0)
    priced = False
    if hedge is not None and len(hedge) >= 2 and case["dir_seed"] % 2 == 0:
        # the quoted price of the listed hedging instrument depends on a parameter of the model (a jointly calibrated
        # pricer): the loss then depends on that parameter through the prices (gains AND transaction costs) as well
        q = torch.nn.Parameter(torch.tensor(0.1, dtype=objs["dtype"]))
        objs["model"].register_parameter("quote_scale", q)
        listed = hedge[1]
        listed.list(lambda d: ((d.ul().spot - d.strike).tanh() + 0.1 * d.time_to_maturity()) * (1 + q) + q.square(), cost=max(listed.cost, 1e-3))
        priced = True
    with ctx.sut("C14/simulate"):
        simulate(case, objs)
    params = [p for p in hedger.parameters() if p.requires_grad]
    if not params:
        ctx.cls("skipped:no-parameters")
        return

    def loss_fn():
        return hedger.criterion(hedger.compute_portfolio(deriv, hedge=hedge), deriv.payoff())

    with torch.no_grad():
        with ctx.sut("C14/loss"):
            sample = hedger.compute_portfolio(deriv, hedge=hedge) - deriv.payoff()
    if not torch.isfinite(sample).all():
        ctx.cls("skipped:non-finite-sample")  # e.g. a forward-start ratio on a rate that touched zero
        return
    with torch.no_grad():
        bound = hedger.inputs.of(deriv, hedger)
        if any(not torch.isfinite(f.get(None)).all() for f in bound.features if not f.is_state_dependent()):
            ctx.cls("skipped:non-finite-model-input")  # e.g. the log of a CIR rate that touched zero: the user's model sees -inf
            return
    with ctx.sut("C14/loss"):
        L = loss_fn()
    if not torch.isfinite(L):
        ctx.cls("skipped:non-finite-loss")
        return
    if not ctx.check(L.requires_grad, "C14/no-graph", "training loss does not depend on the parameters through the graph"):
        return
    with ctx.sut("C14/backward"):
        grads = torch.autograd.grad(L, params, allow_unused=True)
    grads = [g if g is not None else torch.zeros_like(p) for g, p in zip(grads, params)]
    gen = torch.Generator().manual_seed(case["dir_seed"])
    base = [p.detach().clone() for p in params]

    any_cost = any(getattr(h_, "cost", 0.0) for h_ in (hedge or list(deriv.underliers())))

    def signature():
        """Which side of each kink (|trade|, |opening trade|, top-k membership, |residual|) the current point is on."""
        if hasattr(objs["model"], "sig"):
            objs["model"].sig.clear()
        unit = hedger.compute_hedge(deriv, hedge=hedge)
        sig = []
        if hasattr(objs["model"], "sig"):
            sig += [x for pair in objs["model"].sig for x in pair]  # sides of the clamp's two kinks
        if any_cost:
            sig += [torch.sign(unit.diff(dim=-1)), torch.sign(unit[..., 0])]
        if c["kind"] in ("es", "l1"):
            pf = hedger.compute_portfolio(deriv, hedge=hedge) - deriv.payoff()
            if c["kind"] == "l1":
                sig.append(torch.sign(pf))
            else:
                import math
                kk = math.ceil(c["p"] * pf.numel())
                sig.append(pf.topk(kk, largest=False).indices.sort().values)
        return sig

    def at(h, d, sig0=None):
        with torch.no_grad():
            for p, b, di in zip(params, base, d):
                p.copy_(b + h * di)
            v = float(loss_fn())
            same = True
            if sig0 is not None:
                same = all(torch.equal(x, y) for x, y in zip(signature(), sig0))
            for p, b in zip(params, base):
                p.copy_(b)
        return (v, same) if sig0 is not None else v

    with torch.no_grad():
        sig0 = signature()

    def crosses_kink(d, h):
        return not all(at(k * h, d, sig0)[1] for k in (-2, -1, 1, 2))

    def fd(h, d):
        return (-at(2 * h, d) + 8 * at(h, d) - 8 * at(-h, d) + at(-2 * h, d)) / (12 * h)

    rel = 2e-4 if c["kind"] == "qcvar" else 1e-6

    def qcvar_gradient_slack(d, h=1e-4):
        import math as _m

        def sample_at(step):
            with torch.no_grad():
                for p_, b_, di in zip(params, base, d):
                    p_.copy_(b_ + step * di)
                smp = hedger.compute_portfolio(deriv, hedge=hedge) - deriv.payoff()
                for p_, b_ in zip(params, base):
                    p_.copy_(b_)
            return smp
        up, dn, mid = sample_at(h), sample_at(-h), sample_at(0.0)
        sens = float(((up - dn) / (2 * h)).abs().mean())
        rng = float((mid - mid.mean()).max() - (mid - mid.mean()).min()) + 2e-8
        prec = 1e-6 * 10 ** int(_m.log10(rng))
        return 2.0 * c["lam"] * prec * sens
    used = 0
    gnorm = float(sum((g ** 2).sum() for g in grads)) ** 0.5
    dirs = []
    for _ in range(3):
        d = [torch.randn(p.shape, generator=gen, dtype=p.dtype) for p in params]
        nrm = float(sum((x ** 2).sum() for x in d)) ** 0.5
        dirs.append([x / nrm for x in d])
    # plus the steepest direction and one coordinate direction
    if gnorm > 0:
        dirs.append([g / gnorm for g in grads])
    flat_idx = int(torch.randint(0, sum(p.numel() for p in params), (1,), generator=gen))
    e = [torch.zeros_like(p) for p in params]
    k = flat_idx
    for t in e:
        if k < t.numel():
            t.view(-1)[k] = 1.0
            break
        k -= t.numel()
    dirs.append(e)
    for d in dirs:
        with ctx.sut("C14/loss"):
            if crosses_kink(d, 1e-3):
                ctx.exclude("kink-inside-stencil")
                continue
            f1, f2 = fd(1e-3, d), fd(5e-4, d)
        scale = max(abs(f1), abs(f2), 1e-6)
        if abs(f1 - f2) > 1e-7 * scale + 1e-10:
            ctx.exclude("kink-inside-stencil")
            continue
        auto = float(sum((g * x).sum() for g, x in zip(grads, d)))
        used += 1
        tol = rel * max(abs(auto), abs(f2)) + 1e-9
        if c["kind"] == "qcvar":
            # a-priori bound of what the bisection leaves: omega is found to the precision p = 1e-6 * 10**int(log10(range)) of the call,
            # and d/dx_i [omega + lam mean relu(-omega - x)^2] = -(2 lam / N) relu(-omega - x_i) moves by at most (2 lam / N) p with omega:
            # the directional derivative is off by at most 2 lam p mean_i |d x_i / d theta . d| (the sample's own sensitivity, by differences)
            tol += 2.0 * qcvar_gradient_slack(d)
        if not ctx.check(abs(auto - f2) <= tol, "C14/gradient",
                         f"{c['kind']}: autograd directional derivative {auto!r} vs finite differences {f2!r} "
                         f"(|diff| {abs(auto - f2):.3e} > {tol:.3e})", model=case["model"], inputs=case["inputs"]):
            break
    state_dep = "prev_hedge" in case["inputs"] or "__band_feature" in case["inputs"]
    ctx.nontrivial(used > 0 and gnorm > 1e-8 and (not state_dep or case["model"] == "recurrent" or "__band_feature" in case["inputs"]))
    ctx.cls("parameter-in-listed-price:" + str(priced), "mode:" + case.get("mode", "train"), "crit:" + c["kind"], "model:" + case["model"], "branch:" + ("stepwise" if state_dep else "vectorised"),
            "H:%d" % case["n_hedges"], "cost:" + str(case["ul"]["cost"] > 0), "band-feature:" + str("__band_feature" in case["inputs"]))
    if used == 0:
        ctx.cls("all-directions-discarded")


# ------------------------------------------------------------------ evaluation-only quantities
@st.composite
def nograd_case(draw):
    sc = draw(scenario(models=("linear", "mlp", "recurrent", "bs"), dtype="any", min_steps=2, max_steps=5, max_paths=6))
    if sc["ul"]["type"] in ("VasicekRate", "CIRRate"):
        # ratios / logs of a rate that can touch zero or go negative give NaN samples, which no criterion accepts
        sc["ul"]["type"], sc["ul"]["params"] = "BrownianStock", {}
    sc["n_times"] = draw(st.integers(1, 2))
    sc["crit"] = draw(st.sampled_from(["entropic_rm", "oce", "oce", "es"]))  # OCE owns a trainable parameter
    sc["mode"] = draw(st.sampled_from(["train", "eval"]))
    sc["outer_grad"] = draw(st.booleans())
    # the initial state as a tensor that requires grad (the documented way to differentiate a price w.r.t. the spot - here with
    # enable_grad left at its default, so nothing may carry a graph)
    sc["init_grad"] = draw(st.booleans())
    return sc


def check_nograd(case, ctx):
    objs = build_scenario(case)
    deriv, hedger, hedge = objs["derivative"], objs["hedger"], objs["hedge"]
    crit = case.get("crit", "entropic_rm")
    if crit == "oce":
        hedger.criterion = build_criterion({"kind": "oce", "w": 0.1}).to(objs["dtype"])
    elif crit == "es":
        hedger.criterion = build_criterion({"kind": "es", "p": 0.5})
    hedger.train(case.get("mode", "train") == "train")
    has_params = any(p.requires_grad for p in hedger.parameters())
    n, k = case["n_paths"], case["n_times"]
    torch.manual_seed(case["sim_seed"])
    # a non-finite P&L sample (a NaN hedge on a zero-variance step - known findings K3 / K3-hedger of C18) is accepted by no criterion
    torch.manual_seed(case["sim_seed"])
    with torch.no_grad():
        with ctx.sut("C14/evaluation-only/simulate"):
            finite = True
            for _ in range(4 * k):  # the batches the four calls below will draw
                deriv.simulate(n_paths=n)
                finite = finite and bool(torch.isfinite(hedger.compute_portfolio(deriv, hedge=hedge) - deriv.payoff()).all())
    if not finite:
        ctx.cls("skipped:non-finite-sample")
        return
    torch.manual_seed(case["sim_seed"])
    kw0 = {}
    if case.get("init_grad"):
        state = [torch.tensor(float(x), dtype=objs["dtype"], requires_grad=(i == 0)) for i, x in enumerate(objs["ul"].default_init_state)]
        kw0["init_state"] = tuple(state)
    with torch.set_grad_enabled(case.get("outer_grad", True)):
        with ctx.sut("C14/evaluation-only"):
            p = hedger.price(deriv, hedge=hedge, n_paths=n, n_times=k, **kw0)
            l0 = hedger.compute_loss(deriv, hedge=hedge, n_paths=n, n_times=k, enable_grad=False, **kw0)
    with ctx.sut("C14/evaluation-only"):
        l1 = hedger.compute_loss(deriv, hedge=hedge, n_paths=n, n_times=k)
        p1 = hedger.price(deriv, hedge=hedge, n_paths=n, n_times=k, enable_grad=True)
    ctx.check(p.grad_fn is None and not p.requires_grad, "C14/price-carries-graph", "price() carries a graph by default")
    ctx.check(l0.grad_fn is None and not l0.requires_grad, "C14/loss-nograd-carries-graph", "compute_loss(enable_grad=False) carries a graph")
    if has_params and torch.isfinite(l1):
        ctx.check(l1.requires_grad, "C14/loss-has-no-graph", "compute_loss() with gradients enabled carries no graph")
        if crit == "entropic_rm" and any(p_.requires_grad for p_ in hedger.model.parameters()):
            # (a price found by the default bisection search has no differentiable dependence on the parameters)
            ctx.check(p1.requires_grad, "C14/price-grad-has-no-graph", "price(enable_grad=True) carries no graph")
    ctx.check(torch.is_grad_enabled(), "C14/grad-mode-leaked", "gradient mode left disabled after an evaluation-only call")
    ctx.nontrivial(has_params)
    ctx.cls("model:" + case["model"], "n_times:%d" % k, "crit:" + crit, "mode:" + case.get("mode", "train"), "init_state-requires-grad:" + str(bool(case.get("init_grad"))))


META = {
    "technique": "property-based testing: differential oracle autograd vs 5-point finite differences on the same simulated paths, over Hypothesis-generated hedging scenarios and criteria",
    "level_text": "Exploration: for each generated scenario (both evaluation branches, recurrent prev_hedge models, H in {1,2}, costs zero/positive, 8 criteria incl. OCE's own parameter and torch losses) the autograd gradient is compared along 5 directions with finite differences of the same loss; evaluation-only quantities are checked to carry no graph.",
}

SUBS = [
    Sub("gradient", check_grad,
        rule="float64 scenario: Linear / tanh-MLP / recurrent user model, feature sets with and without prev_hedge, 4..32 paths, "
             "3..8 steps, hedge default/[ul]/[ul, listed option], criterion in {entropic RM, entropic loss, isoelastic (shifted "
             "P&L), ES, QCVaR, OCE(w), MSE, L1}. Non-trivial: gradient norm > 1e-8, at least one direction kept, and in the "
             "stepwise branch a model that really feeds prev_hedge forward.",
        strategy=lambda tier: grad_case(), examples={"quick": 1280, "thorough": 12800}),
    Sub("evaluation_only", check_nograd,
        rule="scenario x n_times in {1,2}: price() and compute_loss(enable_grad=False) have no grad_fn, the enable_grad variants do. "
             "Non-trivial: the hedger has trainable parameters.",
        strategy=lambda tier: nograd_case(), examples={"quick": 640, "thorough": 6400}),
]
