import torch, math, warnings, itertools
warnings.filterwarnings("ignore")
from pfhedge.nn import functional as F
f64=torch.float64
T=[0.0,1e-12,1e-6,0.1,1.0]; V=[0.0,1e-12,1e-3,0.2]; S=[0.0,1e-9,-1e-9,0.01,-0.01,0.3,-0.3,3.0,-3.0]
K=[1.0,2.5]
issues={}
def note(k,msg): issues.setdefault(k,[]).append(msg)
for t,v,s,k in itertools.product(T,V,S,K):
    if t>0 and v>0: continue
    ts,tt,tv=[torch.tensor(x,dtype=f64) for x in (s,t,v)]
    spot=k*math.exp(s)
    for call in (True,False):
        p=F.bs_european_price(ts,tt,tv,strike=k,call=call).item(); intr=max(spot-k,0) if call else max(k-spot,0)
        if not abs(p-intr)<=1e-9*k: note("E price",(t,v,s,k,call,p,intr))
        d=F.bs_european_delta(ts,tt,tv,call=call).item()
        lim=(1.0 if s>0 else 0.0 if s<0 else 0.5) - (0 if call else 1)
        if not abs(d-lim)<1e-9: note("E delta",(t,v,s,call,d,lim))
        p=F.bs_european_binary_price(ts,tt,tv,call=call).item()
        lim=(1.0 if s>0 else 0.0 if s<0 else None)
        if lim is not None:
            lim = lim if call else 1-lim
            if not abs(p-lim)<1e-9: note("EB price",(t,v,s,call,p,lim))
        elif math.isnan(p): note("EB price nan",(t,v,s))
        d=F.bs_european_binary_delta(ts,tt,tv,call=call,strike=k).item()
        if math.isnan(d) or (s!=0 and abs(d)>1e-9): note("EB delta",(t,v,s,call,d))
    if s<0:
      for m in [s, s/2]:
        tm=torch.tensor(m,dtype=f64)
        p=F.bs_american_binary_price(ts,tm,tt,tv).item()
        if not abs(p-0.0)<1e-9: note("AB price",(t,v,s,m,p))
        d=F.bs_american_binary_delta(ts,tm,tt,tv,strike=k).item()
        if math.isnan(d) or abs(d)>1e-9: note("AB delta",(t,v,s,m,d))
    for m in [s, s+0.2, max(s,0.0)+0.1]:
        tm=torch.tensor(m,dtype=f64)
        p=F.bs_lookback_price(ts,tm,tt,tv,k).item(); intr=max(k*math.exp(m)-k,0)
        if not abs(p-intr)<=1e-9*k: note("LB price",(t,v,s,m,k,p,intr))
        d=F.bs_lookback_delta(ts,tm,tt,tv,k).item()
        if math.isnan(d): note("LB delta nan",(t,v,s,m))
    if s>=0:
        tm=torch.tensor(s,dtype=f64)
        p=F.bs_american_binary_price(ts,tm,tt,tv).item()
        if p!=1.0: note("AB price reached",(t,v,s,p))
for kk,vv in issues.items(): print(kk,len(vv),vv[:3])
for bad in [(-1.0,0.2),(1.0,-0.2)]:
    for fn in [lambda t,v:F.bs_european_price(torch.tensor(0.),torch.tensor(t),torch.tensor(v)), lambda t,v:F.bs_lookback_price(torch.tensor(0.),torch.tensor(0.1),torch.tensor(t),torch.tensor(v),1.0),lambda t,v:F.bs_american_binary_price(torch.tensor(-0.1),torch.tensor(-0.1),torch.tensor(t),torch.tensor(v))]:
        try: fn(*bad); print("no error",bad)
        except ValueError: pass
