import torch, math, warnings, random, time
warnings.filterwarnings("ignore")
import mpmath as mp
mp.mp.dps=30
from pfhedge.nn import functional as F

def law_max_cdf(m, nu, sig, t):
    # P(max_{[0,t]} (nu u + sig W_u) <= m), m>=0
    if m<0: return mp.mpf(0)
    st=sig*mp.sqrt(t)
    return mp.ncdf((m-nu*t)/st) - mp.exp(2*nu*m/sig**2)*mp.ncdf((-m-nu*t)/st)

def oracle_lookback(s, m, t, v, K):
    # price = E[(max(Mrun, S*exp(maxX)) - K)^+], X log-price with drift -v^2/2
    S=K*mp.exp(s); Mrun=K*mp.exp(m)
    nu=-v*v/2
    # density of future max y>=0
    f=lambda y: mp.diff(lambda z: law_max_cdf(z,nu,v,t), y)
    # payoff as fn of y
    pay=lambda y: max(max(Mrun, S*mp.exp(y))-K, 0)
    # atom? law has no atom at 0 for t>0 (cdf(0)=ncdf(-nu t/st)-ncdf(-nu t/ st)=0) ok
    ystar=max(mp.log(max(Mrun,K)/S),0)
    st=v*mp.sqrt(t)
    base=max(Mrun-K,0)*law_max_cdf(ystar,nu,v,t)
    up=ystar+12*st+abs(nu)*t
    integ=mp.quad(lambda y: pay(y)*f(y), [ystar, ystar+st, ystar+3*st, up])
    return base+integ

def oracle_lookback2(s,m,t,v,K):
    # integrate by parts: E[g(Y)] = g(0)+ int g'(y) P(Y>y) dy ; g(y)=(max(Mrun,S e^y)-K)^+
    S=K*mp.exp(s); Mrun=K*mp.exp(m); nu=-v*v/2; st=v*mp.sqrt(t)
    ystar=max(mp.log(max(Mrun,K)/S),0)
    g0=max(max(Mrun,S)-K,0)
    up=ystar+14*st+abs(nu)*t
    integ=mp.quad(lambda y: S*mp.exp(y)*(1-law_max_cdf(y,nu,v,t)), [ystar, ystar+st, ystar+3*st, up])
    return g0+integ

random.seed(1)
worst=0
t0=time.time()
for i in range(40):
    s=random.uniform(-1,1); t=random.uniform(0.01,5); v=random.uniform(0.02,2); K=random.uniform(0.1,10)
    m=s+ (random.random()<0.7)*random.expovariate(3)
    a=oracle_lookback2(mp.mpf(s),mp.mpf(m),mp.mpf(t),mp.mpf(v),mp.mpf(K))
    c=F.bs_lookback_price(*[torch.tensor(x,dtype=torch.float64) for x in (s,m,t,v)], K).item()
    err=abs(a-c)/max(K*math.exp(m),K)
    worst=max(worst,err)
    if err>1e-9: print("MISMATCH",s,m,t,v,K,float(a),c)
print("worst rel err",float(worst), time.time()-t0)
# cross-check oracle 1 vs 2
print(oracle_lookback(mp.mpf(-0.1),mp.mpf(0.05),mp.mpf(1),mp.mpf(0.3),mp.mpf(1.0)), oracle_lookback2(mp.mpf(-0.1),mp.mpf(0.05),mp.mpf(1),mp.mpf(0.3),mp.mpf(1.0)))
