import torch, math, warnings, random
warnings.filterwarnings("ignore")
from fractions import Fraction as Fr
from pfhedge.nn import functional as F
def qcvar_exact(xs, lam):
    # minimise g(w)=w+lam*mean(max(-w-x,0)^2); let y=-w; active set {x_i < y}; sorted ascending
    xs=sorted(Fr(x) for x in xs); n=len(xs); lam=Fr(lam)
    best=None
    # for k active smallest points (k>=1): stationarity: 1 = 2 lam/n * sum_{i<k}(y-x_i) -> y=(n/(2lam)+sum x_i)/k ; valid if x_{k-1} < y <= x_k (or k==n: y> x_{n-1})
    pre=Fr(0)
    for k in range(1,n+1):
        pre+=xs[k-1]
        y=(Fr(n)/(2*lam)+pre)/k
        lo=xs[k-1]; hi=xs[k] if k<n else None
        if y>=lo and (hi is None or y<=hi):
            val=-y+lam*sum((y-x)**2 for x in xs[:k])/n
            if best is None or val<best: best=val
    return best
random.seed(0); torch.manual_seed(0)
worst=0;narrow=0
for it in range(300):
    n=random.choice([1,2,5,20]); lam=random.choice([1.0,2.0,10.0,50.0]); sc=random.choice([0.001,0.1,1,10])
    x=(torch.randn(n,dtype=torch.float64)*sc).round(decimals=random.choice([1,3,6]))
    ex=float(qcvar_exact(x.tolist(),lam)); got=F.quadratic_cvar(x,lam).item()
    xc=x-x.mean()
    isn = xc.max().item()<=1/(2*lam)
    if isn: narrow+=1; continue
    worst=max(worst,abs(got-ex)/max(1,abs(ex)))
print("worst rel (wide)",worst,"narrow excluded",narrow)
# Heston control variate
from pfhedge.stochastic import generate_heston
torch.manual_seed(3)
k,th,s,rho,dt,T=2.0,0.09,0.5,-0.6,1/50,26
N=200000
o=generate_heston(N,T,init_state=(1.3,0.05),kappa=k,theta=th,sigma=s,rho=rho,dt=dt,dtype=torch.float64)
v=o.variance
k0=-rho*k*th*dt/s; k1=0.5*dt*(k*rho/s-0.5)-rho/s; k2=0.5*dt*(k*rho/s-0.5)+rho/s; k3=0.5*dt*(1-rho**2); k4=k3
cond=(k0+k1*v[:,:-1]+k2*v[:,1:]+0.5*(k3*v[:,:-1]+k4*v[:,1:])).sum(1).exp()
ratio=o.spot[:,-1]/1.3
diff=ratio-cond
print("mean ratio",ratio.mean().item(),"mean cond",cond.mean().item(),"diff z",(diff.mean()/(diff.std()/math.sqrt(N))).item(), "cond-1 z", ((cond.mean()-1)/(cond.std()/math.sqrt(N))).item())
