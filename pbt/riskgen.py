"""Sample generators shared by the risk-measure properties (C04, C05).

A *sample spec* is plain JSON data; ``build(spec, dtype)`` turns it into a numpy array of the dtype
(shape (N, *trail)).  The array - whatever rounding produced it - *is* the sample: oracles read its
elements back as exact Python floats.

kinds
  list    explicit nested list of elements (drawn by Hypothesis: ties, small integers, zeros, floats)
          times ``scale`` plus ``shift``
  const   one value repeated
  seeded  torch.randn under a drawn seed (local generator): "normal", "cauchy" (ratio of normals: heavy
          tails) or "ties" (normals rounded to a grid of 3 values), times scale plus shift
"""
from typing import Any, Dict, List, Optional, Tuple

import numpy as np
import torch
from hypothesis import strategies as st

from .gens import fl, nested

NP = {"float32": np.float32, "float64": np.float64}
SCALES_ALL = [1e-6, 1e-4, 1e-2, 0.1, 1.0, 1.0, 1.0, 10.0, 1e2, 1e3, 1e4, 1e5, 1e6]


LARGE_N = [257, 1000, 4097, 5000, 8193, 12000, 20000, 20000]


def shape_s(max_n: int = 64, min_n: int = 1, large: int = 0):
    """[N, *trail]: N=1 rarely, small N most of the time, up to max_n; trailing shape (), (M), (M,K) with M,K in [1,4].
    With ``large`` = m > 0, one case in m has a long sample (N from LARGE_N, up to 20000 outcomes, no trailing shape or one
    trailing dimension of 2): library kernels (topk, kthvalue, quantile, sort) switch algorithms with the size."""
    lo = max(min_n, 2)
    n = st.one_of(st.integers(lo, 4), st.integers(lo, 8), st.integers(lo, 8), st.integers(lo, 16),
                  st.integers(lo, max_n), st.integers(min_n, max(min_n, 3)))
    m = st.sampled_from([1, 2, 2, 3, 3, 4])
    trail = st.one_of(st.just([]), st.just([]), st.just([]), st.lists(m, min_size=1, max_size=1), st.lists(m, min_size=2, max_size=2))
    small = st.tuples(n, trail).map(lambda t: [t[0]] + t[1])
    if not large:
        return small
    big = st.tuples(st.sampled_from(LARGE_N), st.sampled_from([[], [], [], [2]])).map(lambda t: [t[0]] + t[1])
    return st.integers(0, large - 1).flatmap(lambda i: big if i == 0 else small)


def unit_elements(dtype: str):
    return st.one_of(
        st.integers(-3, 3).map(float),
        st.sampled_from([0.0, 1.0, -1.0, 0.5, -0.5, 2.0]),
        fl(-2.0, 2.0, dtype),
        fl(-2.0, 2.0, dtype),
        fl(-30.0, 30.0, dtype),
    )


@st.composite
def sample_spec(draw, dtype: str, shape: List[int], scales: Optional[List[float]] = None,
                shifts: Optional[List[float]] = None, positive: bool = False, max_list: int = 16,
                kinds: Optional[List[str]] = None):
    """One sample of the given shape."""
    n_el = int(np.prod(shape))
    scale = draw(st.sampled_from(scales or SCALES_ALL))
    shift = draw(st.sampled_from(shifts if shifts is not None else [0.0, 0.0, 0.0, 1.0, -1.0, 100.0, -1e3, 1e4]))
    if shape[0] > max_list or n_el > 4 * max_list:
        kinds = ["seeded"]
    kind = draw(st.sampled_from(kinds or ["list", "list", "list", "seeded", "seeded", "const"]))
    if positive:
        shift = 0.0
    spec: Dict[str, Any] = {"kind": kind, "shape": list(shape), "scale": scale, "shift": shift}
    if kind == "list":
        el = st.one_of(st.sampled_from([1.0, 0.5, 2.0, 1.0]), fl(0.01, 4.0, dtype), fl(0.5, 2.0, dtype)) if positive \
            else unit_elements(dtype)
        few = draw(st.booleans())
        if few:  # few distinct values: ties
            pool = draw(st.lists(el, min_size=2, max_size=3, unique=True))
            idx = draw(nested(shape, st.integers(0, len(pool) - 1)))
            spec["data"] = _map_nested(idx, lambda i: pool[i])
        else:
            spec["data"] = draw(nested(shape, el))
    elif kind == "const":
        spec["value"] = draw(st.sampled_from([1.0, 0.5, 2.0, 3.0])) if positive else \
            draw(st.one_of(st.integers(-4, 4).map(float), st.sampled_from([0.5, -0.25, 1.5]), fl(-2.0, 2.0, dtype)))
    else:
        spec["seed"] = draw(st.integers(0, 2 ** 31 - 1))
        # long samples: ties are the interesting class (selection by threshold vs by count)
        spec["law"] = draw(st.sampled_from(["normal", "ties", "ties", "cauchy"] if shape[0] > 256 else ["normal", "normal", "cauchy", "ties"]))
        spec["positive"] = positive
    return spec


def _map_nested(x, f):
    if isinstance(x, list):
        return [_map_nested(v, f) for v in x]
    return f(x)


def build(spec: Dict[str, Any], dtype: str) -> np.ndarray:
    shape = tuple(spec["shape"])
    if spec["kind"] == "list":
        base = np.array(spec["data"], dtype=np.float64).reshape(shape)
    elif spec["kind"] == "const":
        base = np.full(shape, spec["value"], dtype=np.float64)
    elif spec["kind"] == "array":  # already final values (used by hand-written replays)
        return np.array(spec["data"], dtype=NP[dtype]).reshape(shape)
    else:
        g = torch.Generator()
        g.manual_seed(int(spec["seed"]))
        z = torch.randn(shape, generator=g, dtype=torch.float64)
        if spec["law"] == "cauchy":
            z2 = torch.randn(shape, generator=g, dtype=torch.float64)
            z = z / z2
        elif spec["law"] == "ties":
            z = torch.round(z)  # values in a handful of integers
        base = z.numpy()
        if spec.get("positive"):
            base = np.exp(np.clip(base, -6.0, 6.0) * 0.5)
    with np.errstate(all="ignore"):
        arr = base * spec["scale"] + spec["shift"]
        arr = np.clip(arr, -1e7, 1e7)  # the statement's magnitudes (heavy tails are cut at 1e7)
        return arr.astype(NP[dtype])


def nonneg_spec(dtype: str, shape: List[int], scales: Optional[List[float]] = None):
    """A pointwise non-negative increment with exact zeros (for monotonicity pairs)."""
    @st.composite
    def s(draw):
        kind = "list" if (shape[0] <= 16 and int(np.prod(shape)) <= 64) else "seeded"
        scale = draw(st.sampled_from(scales or [1e-6, 1e-3, 0.1, 1.0, 1.0, 10.0, 1e3, 1e6]))
        if kind == "list":
            el = st.one_of(st.just(0.0), st.just(0.0), st.sampled_from([1.0, 0.5, 2.0]), fl(0.0, 2.0, dtype))
            return {"kind": "list", "shape": list(shape), "scale": scale, "shift": 0.0, "data": draw(nested(shape, el))}
        return {"kind": "nonneg_seeded", "shape": list(shape), "scale": scale, "seed": draw(st.integers(0, 2 ** 31 - 1))}
    return s()


def build_nonneg(spec: Dict[str, Any], dtype: str) -> np.ndarray:
    if spec["kind"] == "nonneg_seeded":
        g = torch.Generator()
        g.manual_seed(int(spec["seed"]))
        z = torch.randn(tuple(spec["shape"]), generator=g, dtype=torch.float64)
        z = torch.where(z > 0.3, z, torch.zeros_like(z)).numpy()  # ~ 60 % exact zeros
        return (z * spec["scale"]).astype(NP[dtype])
    return build(spec, dtype)


def columns(arr: np.ndarray) -> List[Tuple[Tuple[int, ...], List[float]]]:
    """[(trailing index, list of python floats along axis 0)]"""
    n = arr.shape[0]
    flat = arr.reshape(n, -1)
    out = []
    for j in range(flat.shape[1]):
        idx = tuple(int(v) for v in np.unravel_index(j, arr.shape[1:])) if arr.ndim > 1 else ()
        out.append((idx, [float(v) for v in flat[:, j]]))
    return out


def to_torch(arr: np.ndarray) -> torch.Tensor:
    return torch.from_numpy(np.ascontiguousarray(arr).copy())


def sub_dtype(a: np.ndarray, b) -> np.ndarray:
    """a - b in the dtype of a (one IEEE operation per element; b array or python float representable in dtype)."""
    with np.errstate(all="ignore"):
        return (a - (b if isinstance(b, np.ndarray) else a.dtype.type(b))).astype(a.dtype)
