#!/venv/bin/python
"""Regenerates the measured tables of DESIGN.md section 8 (between the AUTO markers) from evidence/, mutants/results_*.json
and seeded/*/meta.json + seeded/results.json."""
import glob
import json
import os
import re

HERE = os.path.dirname(os.path.dirname(os.path.abspath(__file__)))
INITIALLY_MISSED = {  # seeded changes the checks did not catch when first run against them (then strengthened, see 8.4)
    "C02-1": "hedge evaluated only under no_grad; now also with autograd enabled",
    "C03-1": "features evaluated after one simulate only; now a second simulate of the same object with the same bound features",
    "C13-3": "fresh feature objects per case; new sub `shared_objects` (one feature/hedger object on derivatives of equal shape, different dt)",
    "C14-1": "gradients checked in train mode only; now train and eval mode",
    "C14-3": "evaluation-only clause checked with parameter-free criteria only; now also OCE (owns a parameter), both outer grad modes",
    "C16-1": "no user model whose output aliases its input; `identity` model on a single buffer-view feature added to the scenarios",
    "C17-2": "derived outputs computed only at the end of a history; new op `eval` uses payoff/features/P&L mid-history",
    "C17-3": "loss/price evaluated with n_times=1 only; n_times>1 added",
    "C05-3": "utility exponent a|x| capped at 80 for both dtypes; now up to the dtype's range (84 / 700)",
    "C08-3": "user pricers consumed one spot-like parameter; now also `spot` together with `(log_)moneyness`",
    "C12-1": "clauses were registered under names whose alphabetical order equals the registration order; names now deliberately out of order",
    "C12-3": "the oracle accepted either neighbour when start/dt is within rounding of an integer (looser than the statement) because the original tree itself was off by one for some k/250; caught since round 5: the tree was repaired (F18) and the oracle made strict",
    "C06-r2-1": "a|x| capped at 20 for every criterion; the entropic risk measure (closed-form cash) now also gets a|x| up to 3000",
    "C06-r2-3": "price() checked with cash-invariant criteria only; isoelastic and a user power utility (with an endowment clause) added",
    "C03-r2-3": "single steps were always requested in increasing consecutive order; second round now skips forward and comes back",
    "C11-r2-1": "no cast between the simulations of an instrument history; casts (after the volatility/variance properties were read) added",
    "C14-r2-1": "no gradient path through prices; a listed hedging instrument whose quote depends on a model parameter added",
    "C01-r3-1": "hedged derivatives carried no clauses; scenarios now draw knock-out / leverage clauses (payoff() != payoff_fn())",
    "C04-r3-2": "the relation tolerance was computed from the definition (exp(700) scale) and hid a loss saturated at exp(88); now capped by the same multiple of the computed loss; float64 exponents up to 700",
    "C07-r3-1": "bound modules were called with no or all arguments; now also with exactly one explicit argument",
    "C12-r3-2": "every clause was a distinct callable; identical clause specs now share one callable registered under several names",
    "C15-r3-1": "one fit() per hedger; now a second fit() on the same hedger with the same optimiser argument",
    "C18-r3-3": "tiny t and v whose product underflows (both non-zero) were not on the boundary grid; added 1e-30 x 1e-31 (float32) and 1e-300 x 1e-200 (float64)",
    "C19-1": "bracket tensors used once; now a second search with the same bracket objects vs fresh copies (differential)",
    "C04-r4-2": "all columns of a batched sample had the same scale; columns of mixed scale (1e-3..1e6) with the bound checked per column at that column's own search precision",
    "C06-r4-1": "cash() searched only with library criteria; a user criterion (mean-std over dim 0) whose value on one row differs from its value on the sample added",
    "C09-r4-1": "boundary elements were evaluated in homogeneous batches; new differential `price_surface`/`batch_independence`: every element of a mixed batch (boundary + interior points) equals its value computed alone",
    "C10-r4-3": "Vasicek kappa*horizon stayed below ~10; kappa in {20,100,300} (strong mean reversion) added",
    "C11-r4-1": "initial states were tuples for CIR/Vasicek (their signature) and bare only where the signature says so; first left uncovered on purpose, then - after two more independent seeders used the same form in round 5 - bare scalars / 0-dim / per-path tensors were added for every one-state generator (cast_state documents and accepts them)",
    "C11-r4-2": "same range gap as C10-r4-3 for the finiteness clause: kappa in {50,200,1000} added to the simulator histories",
    "C11-r4-3": "volatility was always positive; sigma=0 (deterministic paths, still n_paths rows) added",
    "C12-r4-3": "clause names were registered once; a clause re-registered under an existing name (replacement) added, expected order/values follow dict semantics",
    "C15-r4-1": "criteria in fit protocols had no parameters of their own; OCE (trainable w, must move under fit) added",
    "C15-r4-2": "fit() was entered with hedger and model in the same mode; mismatched modes (hedger.eval() with model.train() and vice versa) added",
    "C17-r4-2": "cast aliases were exercised on primaries only; derivative-level aliases (bfloat16/half/double/float via the derivative) added to the exhaustive alphabet",
    "C17-r4-3": "a fresh hedger per history; a long-lived state-dependent hedger (its previous outputs in another dtype) is now reused across casts",
    "C20-r4-2": "cost rate fixed before the modules were built; `late_cost` (cost set on the instrument after constructing hedger / WhalleyWilmott) added",
    "C03-r4-2": "underlier always simulated through the derivative (horizon = maturity); second round now simulates the underlier over a longer horizon",
    "C07-r4-1": "bound modules used maturities that are integral multiples of dt only (caught or not depending on the shard split: a one-ulp effect); maturities between two grid points added",
    "C13-r4-2": "hedge-grid check used one hedging instrument; H=2 with a column-distinguishing model added (entry [n,h,t] vs features at t)",
    "C13-r4-3": "maturity 0 (single time point) was mapped to dt by the generator; now generated as such",
    "C14-r4-2": "no model with a clamp whose bound depends on a parameter; `capped` model (Clamp/LeakyClamp, number floor + learned tensor cap, kink-aware) added",
    "C14-r4-3": "no parameter-free ModuleOutput feature fed with prev_hedge; `band feature` added (gradient flows through the feature)",
    "C16-r4-1": "listed quotes compared only between long-lived and fresh hedgers (both see the same memo); each listed instrument's quote now compared with its own pricer after other quotes were read, in both orders",
    "C16-r4-2": "buffers compared by name before/after; tensors held by the caller across a re-simulation must now stay bitwise intact",
    "C16-r4-3": "histories had no caller-side backward; op `backward` leaves stale .grad before fit (fresh reference has none)",
    "C18-r4-1": "boundary elements evaluated in homogeneous batches; `mixed_batches` differential added",
    "C02-r5-1": "paths had at most 9 steps; contracts with 257/258/300 steps added (`is` on integers above 256) - stepwise branch",
    "C02-r5-2": "same as C02-r5-1, vectorised branch",
    "C02-r5-3": "feature table per derivative type was hard-coded; option-family features are now probed on every derivative type at run time and used wherever the library offers them",
    "C04-r5-1": "samples had at most 64 outcomes; long samples (up to 20000 outcomes, mostly tied values) added: library kernels switch algorithm with size",
    "C07-r5-2": "functionals were always called with keywords; the documented positional order (a table in the oracle, not read from the code) is now called as well and must agree",
    "C09-r5-1": "same as C07-r5-2 (positional strike / call of bs_european_price)",
    "C09-r5-3": "same as C07-r5-2 (positional call of bs_european_binary_price)",
    "C09-r5-2": "C09 checked functionals only; new sub `modules`: the relations through pricing modules bound to one simulated underlier with a caller-supplied running maximum / volatility / time to maturity (C07 partial arguments now include the running maximum too)",
    "C10-r5-1": "initial states were scalars; per-path initial states (bare or in a tuple) added to the pathwise oracle",
    "C10-r5-2": "CIR/Vasicek start values were given in a tuple; bare float / 0-dim tensor forms added",
    "C11-r5-1": "local volatility functions always depended on the spot; 0-dim (time-only / constant) sigma_fn added",
    "C11-r5-2": "as C10-r5-2 for the buffer predicates (bare zero start of Vasicek)",
    "C11-r5-3": "the documented `engine` argument was not drawn; antithetic / Sobol engines with odd and even path counts added (generators and jump instruments)",
    "C12-r5-1": "same change as C12-3 (see there)",
    "C12-r5-3": "prices were positive and strikes positive; rate-like paths around zero with zero / negative strikes added for the option payoffs",
    "C13-r5-1": "derivative.simulate() was called without init_state; the documented second argument (the default state given explicitly) added",
    "C13-r5-2": "C13 did not look at the forward-start payoff's start point; start = k*dt must use grid point k (and see C12-3)",
    "C13-r5-3": "the times at which a local-volatility function is asked were not observed; recorded and compared with i*dt",
    "C15-r5-3": "optimiser instances were only built after the documented placeholder forward; new sub `lazy_instance` (instance built on still-lazy parameters, batch sizes logged)",
    "C16-r5-2": "no user network working in place on its input; `inplace` model (Hardtanh(inplace=True) first) on a single buffer-view feature added",
    "C17-r5-1": "register_buffer payloads were floating tensors; int64 / bool payloads added to the op alphabet",
    "C17-r5-2": "rejected dtypes were int/bool; complex64/complex128 added",
    "C18-r5-1": "negative arguments were tensor elements; 0-dim tensors and plain Python numbers added",
    "C18-r5-3": "no underlier with sigma = 0 in the hedger sweep; added (which exposed F19 and K6 on the original tree)",
    "C02-r6-1": "probing of features outside their family covered derivative types only; now also the volatility / variance features on underliers without a volatility (rates)",
    "C13-r6-2": "single steps counted from the end were asked of time to maturity only; now of every feature (C03) and of moneyness / log-moneyness / spot on the C13 grid",
    "C14-r6-1": "evaluation-only calls were made with the default initial state; now also with an initial-state tensor that requires grad",
    "C14-r6-2": "outside C14's statement (the gradient of the loss is still the true one; it is fit() that accumulates it across epochs when validation is off): caught by the C15 check, which is run for this seed as well",
    "C15-r6-1": "fit() was always called with verbose=False; the progress bar is now switched on in half of the cases (written to os.devnull)",
    "C15-r6-2": "tqdm_kwargs was never passed; display options incl. `initial` are drawn now",
    "C16-r6-1": "the fresh reference hedger copied the long-lived hedger's train/eval mode, so a call that flips the mode went unseen; every non-fit op must now leave all mode flags as the caller set them",
    "C16-r6-2": "as C16-r6-1: for models without mode-dependent layers (now incl. an MLP followed by pfhedge's LeakyClamp) the reference hedger is put in the other mode",
    "C17-r6-2": "every registered buffer was a distinct tensor; the current series registered under a second name (one tensor, two buffers) added",
    "C18-r6-1": "a negative argument was always paired with an interior value of the other; now also with 0, -0.0 and 1e-300 (negative volatility at maturity)",
}


def table_checks():
    rows = ["| id | sub-checks (cases in the quick tier) | evaluations | distinct non-trivial | wall (s) | known findings shown |", "|---|---|---|---|---|---|"]
    for f in sorted(glob.glob(os.path.join(HERE, "evidence", "C*.json"))):
        e = json.load(open(f))
        c = e["coverage"]
        subs = ", ".join(f"{k} ({v['evaluations']})" for k, v in c.get("subchecks", {}).items() if v["evaluations"])
        kf = ", ".join(c.get("known_findings", {}).get("known_reproduced", [])) or "-"
        rows.append(f"| {e['property_id']} | {subs} | {c['evaluations']} | {c['distinct_nontrivial']} | {e['wall_s']:.0f} | {kf} |")
    return "\n".join(rows)


def table_mutants():
    tot, caught, names = {}, {}, {}
    for f in glob.glob(os.path.join(HERE, "mutants", "results*.json")):
        for r in json.load(open(f)):
            p = r["property"]
            tot[p] = tot.get(p, 0) + 1
            caught[p] = caught.get(p, 0) + bool(r["caught"])
            names.setdefault(p, []).append(r["mutant"] + ("" if r["caught"] else " (MISSED)"))
    rows = ["| id | mutants caught / run | mutants |", "|---|---|---|"]
    for p in sorted(tot):
        rows.append(f"| {p} | {caught[p]}/{tot[p]} | {', '.join(sorted(names[p]))} |")
    rows.append(f"| all | {sum(caught.values())}/{sum(tot.values())} | |")
    return "\n".join(rows)


def table_seeded():
    path = os.path.join(HERE, "seeded", "results.json")
    res = {r["name"]: r for r in json.load(open(path))} if os.path.exists(path) else {}
    rows = ["| seeded change | what it changes / needs (from its notes) | caught by (labels, quick tier) | first run |", "|---|---|---|---|"]
    n = c = first = 0
    obsolete_first = [0, 0]
    for d in sorted(glob.glob(os.path.join(HERE, "seeded", "C*"))):
        name = os.path.basename(d)
        meta = json.load(open(os.path.join(d, "meta.json")))
        r = res.get(name, {})
        chk = (r.get("checks") or {}).get(meta["property"], {})
        labels = ", ".join(chk.get("labels", [])[:4]) or "-"
        if r.get("caught_by"):
            other = r["caught_by"][0]
            labels = f"(by the {other} check: " + ", ".join(((r.get("checks") or {}).get(other, {}).get("labels") or [])[:3]) + ")"
        title = next((l for l in meta.get("needs_to_manifest", "").splitlines() if l.strip()), "")
        summary = meta.get("summary") or re.sub(r"^#+\s*", "", title).replace("|", "/")[:170]
        if meta.get("obsolete"):
            rows.append(f"| {name} | {summary} | (obsolete: neutralised by a later repair of /repo, see meta.json) | "
                        + ("missed: " + INITIALLY_MISSED[name] if name in INITIALLY_MISSED else "caught") + " |")
            obsolete_first[0] += name not in INITIALLY_MISSED
            obsolete_first[1] += 1
            continue
        n += 1
        c += bool(r.get("caught"))
        fr = "missed: " + INITIALLY_MISSED[name] if name in INITIALLY_MISSED else ("caught" if r.get("caught") else "MISSED")
        first += name not in INITIALLY_MISSED and bool(r.get("caught"))
        rows.append(f"| {name} | {summary} | {labels if r.get('caught') else 'MISSED'} | {fr} |")
    rows.append(f"| total {n} (+{obsolete_first[1]} obsolete) | | caught now: {c}/{n} | caught on first run: {first}/{n} (obsolete ones: {obsolete_first[0]}/{obsolete_first[1]}) |")
    return "\n".join(rows)


def main():
    p = os.path.join(HERE, "DESIGN.md")
    s = open(p).read()
    for key, fn in (("CHECKS", table_checks), ("MUTANTS", table_mutants), ("SEEDED", table_seeded)):
        a, b = f"<!-- AUTO:{key} -->", f"<!-- /AUTO:{key} -->"
        if a in s and b in s:
            s = s[: s.index(a) + len(a)] + "\n" + fn() + "\n" + s[s.index(b):]
    open(p, "w").write(s)


if __name__ == "__main__":
    main()
