"""C07 - Black-Scholes prices equal the expected payoff under the model."""
import math

import numpy as np
import torch
from hypothesis import strategies as st

from ..core import HarnessError, Sub
from ..gens import DTYPES, EPS, OPTIONS, STOCKS, build_primary, fl, primary_spec, seed_s
from ..oracles import bsmp

PROPERTY_ID = "C07"
KINDS = ["european", "european_binary", "american_binary", "lookback"]
KIND_OF = {"EuropeanOption": "european", "EuropeanBinaryOption": "european_binary",
           "AmericanBinaryOption": "american_binary", "LookbackOption": "lookback"}
HAS_PUT = {"european", "european_binary"}
HAS_MAX = {"american_binary", "lookback"}
REL_TOL = {"float64": 1e-10, "float32": 64 * EPS["float32"]}

ASSUMPTIONS = [
    "zero rates and dividends (pfhedge's documented convention): S_u = S exp(-v^2 u/2 + v W_u) under the pricing measure",
    "American binary = one-touch call paying 1 at maturity if the running maximum (including the past maximum) reaches the strike; "
    "lookback = fixed-strike lookback call on the running maximum (the payoffs of pfhedge's AmericanBinaryOption / LookbackOption)",
    "tolerance 1e-10*scale in float64, 64*eps32*scale in float32; scale = max(K, S, M_run) for European / lookback prices "
    "and 1 (the amount paid) for the two binaries",
    "oracle = 30-digit mpmath quadrature (bsmp.py), its own error estimate checked at 1e-18 relative; the running-maximum law it "
    "uses is re-derived from the reflection-principle x Girsanov joint density in the sub-check oracle_selfcheck (failure = exit 2)",
    "the pfhedge price is a function of the float inputs as given: the oracle is evaluated at exactly the tensor elements "
    "(float32 inputs are float32-representable numbers); a Python-float strike is used as is",
    "module part: state tensors (log_moneyness, max_log_moneyness, time_to_maturity, volatility) are taken from the simulated "
    "derivative as they are - the correctness of the simulation / time grid is C10 / C13; oracle comparison only for elements "
    "inside the quantified domain (|s|<=1, 0<t<=5, 0<v<=2, 0.1<K<=10), other elements are counted as excluded",
]


def _rnd(x: float, dtype: str) -> float:
    return float(np.float32(x)) if dtype == "float32" else float(x)


# --------------------------------------------------------------------------------------------
# element strategies on the quantified domain
# --------------------------------------------------------------------------------------------
def s_elem(dtype):
    return st.one_of(fl(-1.0, 1.0, dtype), fl(-1.0, 1.0, dtype), fl(-0.2, 0.2, dtype),
                     st.sampled_from([0.0, -1.0, 1.0]),
                     st.floats(-9.0, -2.0).map(lambda e: _rnd(10.0 ** e, dtype)),
                     st.floats(-9.0, -2.0).map(lambda e: _rnd(-(10.0 ** e), dtype)))


def t_elem(dtype):
    uni = fl(0.01, 5.0, dtype)
    return st.one_of(uni, uni, uni, fl(0.01, 1.0, dtype), fl(0.01, 1.0, dtype),
                     st.sampled_from([1.0, 5.0, 0.25, 20 / 250]).map(lambda x: _rnd(x, dtype)),
                     st.floats(-8.0, 0.0).map(lambda e: _rnd(10.0 ** e, dtype)),
                     st.floats(-36.0, -3.0).map(lambda e: _rnd(10.0 ** e, dtype)))


def v_elem(dtype):
    mid = fl(0.05, 0.8, dtype)
    return st.one_of(fl(0.01, 2.0, dtype), fl(0.01, 2.0, dtype), mid, mid, mid,
                     st.sampled_from([0.2, 1.0, 2.0]).map(lambda x: _rnd(x, dtype)),
                     st.floats(-5.0, 0.0).map(lambda e: _rnd(10.0 ** e, dtype)),
                     st.floats(-30.0, -2.0).map(lambda e: _rnd(10.0 ** e, dtype)))


def k_elem(dtype):
    return st.one_of(fl(math.nextafter(0.1, 1.0), 10.0, dtype), fl(0.5, 2.0, dtype),
                     st.sampled_from([1.0, 1.0, 10.0, 0.5, 2.0, 1.25]))


def s_below_elem(dtype):  # spot below the strike (needed for a running max below the strike)
    return st.one_of(fl(-1.0, -0.001, dtype), fl(-0.3, -0.001, dtype), st.just(-1.0),
                     st.floats(-9.0, -3.0).map(lambda e: _rnd(-(10.0 ** e), dtype)))


def excess_elem(dtype):  # running max = spot * exp(excess): 0 (max == spot), tiny, moderate
    return st.one_of(st.just(0.0), fl(0.001, 1.5, dtype), fl(0.001, 1.5, dtype), fl(0.001, 0.3, dtype), fl(0.001, 0.3, dtype),
                     st.floats(-9.0, -2.0).map(lambda e: _rnd(10.0 ** e, dtype)))


def floor_elem(dtype):  # lower bound for the running max in log-moneyness: none, exactly the strike, anywhere
    return st.one_of(st.just(-5.0), st.just(-5.0), st.just(-5.0), st.just(-5.0), st.just(0.0), fl(-1.0, 1.0, dtype))


def frac_elem(dtype):  # "below" mode: running max = s * (1 - frac) in [s, 0]: 0 (max == spot), tiny, anywhere up to the strike,
    # 1 (max exactly at the strike while the spot is below it: the barrier has just been reached)
    return st.one_of(st.just(0.0), st.just(1.0), fl(0.001, 0.999, dtype), fl(0.001, 0.999, dtype), fl(0.001, 0.999, dtype),
                     st.floats(-9.0, -2.0).map(lambda e: _rnd(10.0 ** e, dtype)))


def _nested(draw, shape, elems):
    if len(shape) == 0:
        return draw(elems)
    return [_nested(draw, shape[1:], elems) for _ in range(shape[0])]


@st.composite
def func_case(draw):
    kind = draw(st.sampled_from(["european", "european", "european_binary", "american_binary", "lookback", "lookback"]))
    dtype = draw(st.sampled_from(["float64", "float64", "float64", "float32"]))
    call = draw(st.booleans()) if kind in HAS_PUT else True
    mode = draw(st.sampled_from(["scalar", "vec", "bcast", "bcast"]))
    if mode == "scalar":
        shapes = {k: () for k in "stvef"}
    elif mode == "vec":
        n = draw(st.integers(1, 4))
        shapes = {k: (n,) for k in "stvef"}
    else:
        n, k = draw(st.integers(1, 3)), draw(st.integers(1, 3))
        any_shape = st.sampled_from([(), (n, 1), (1, k), (n, k)])
        shapes = {"s": (n, 1), "t": (1, k), "v": draw(any_shape), "e": draw(any_shape), "f": draw(any_shape)}
        if draw(st.booleans()):
            shapes["s"], shapes["t"] = (1, k), (n, 1)
    case = {
        "kind": kind, "dtype": dtype, "call": call, "mode": mode,
        "via": draw(st.sampled_from(["functional", "functional", "module"])),
        "strike": draw(k_elem(dtype)),
        "strike_tensor": draw(st.integers(0, 4)) == 0,
        "s": _nested(draw, shapes["s"], s_elem(dtype)),
        "t": _nested(draw, shapes["t"], t_elem(dtype)),
        "v": _nested(draw, shapes["v"], v_elem(dtype)),
        "picks": draw(st.lists(st.integers(0, 10 ** 6), min_size=1, max_size=3)),
    }
    if kind in HAS_MAX:
        # running max: "generic" = max(s + excess, floor) lands mostly at / above the strike;
        # "below" = s < 0 and max = s*(1-frac) in [s, 0) keeps the whole past below the strike
        case["max_mode"] = draw(st.sampled_from(["generic", "generic", "generic", "below", "below"]))
        if case["max_mode"] == "below":
            case["s"] = _nested(draw, shapes["s"], s_below_elem(dtype))
            case["frac"] = _nested(draw, shapes["e"], frac_elem(dtype))
        else:
            case["excess"] = _nested(draw, shapes["e"], excess_elem(dtype))
            case["floor"] = _nested(draw, shapes["f"], floor_elem(dtype))
    else:
        case["tv_pyfloat"] = False
        if mode == "vec" and draw(st.integers(0, 3)) == 0:
            # one maturity / volatility for the whole batch, as 0-dim tensors or as Python floats
            # (documented example: bs_european_price(torch.tensor([-0.1, 0.0, 0.1]), 1.0, 0.2))
            case["t"], case["v"] = case["t"][0], case["v"][0]
            case["tv_pyfloat"] = draw(st.booleans())
    return case


# --------------------------------------------------------------------------------------------
# calling pfhedge
# --------------------------------------------------------------------------------------------
def call_price(kind, via, s, m, t, v, K, call):
    import pfhedge.nn as nn
    import pfhedge.nn.functional as F

    if via == "functional":
        if kind == "european":
            return F.bs_european_price(s, t, v, strike=K, call=call)
        if kind == "european_binary":
            return F.bs_european_binary_price(s, t, v, call=call)
        if kind == "american_binary":
            return F.bs_american_binary_price(s, m, t, v)
        return F.bs_lookback_price(s, m, t, v, K)
    if kind == "european":
        return nn.BSEuropeanOption(call=call, strike=K).price(s, t, v)
    if kind == "european_binary":
        return nn.BSEuropeanBinaryOption(call=call, strike=K).price(s, t, v)
    if kind == "american_binary":
        return nn.BSAmericanBinaryOption(strike=K).price(s, m, t, v)
    return nn.BSLookbackOption(strike=K).price(s, m, t, v)


def scale_of(kind, s, m, K):
    if kind in ("european_binary", "american_binary"):
        return 1.0
    top = max(s, m) if (kind == "lookback" and m is not None) else s
    return K * max(1.0, math.exp(top))


def in_domain(s, m, t, v, K):
    return (-1.0 <= s <= 1.0) and (0.0 < t <= 5.0) and (0.0 < v <= 2.0) and (0.1 < K <= 10.0) and (m is None or m >= s)


def compare_element(ctx, label, kind, call, dtype, got, s, m, t, v, K):
    """One element against the mpmath expectation. Returns True when the element has time value."""
    want = bsmp.price(kind, s, m, t, v, K, call)
    scale = scale_of(kind, s, m, K)
    tol = REL_TOL[dtype] * scale
    err = abs(float(want - got)) if math.isfinite(got) else float("inf")
    ctx.check(err <= tol, label,
              f"{kind} {'call' if call else 'put'} {dtype}: price {got!r} but E[payoff] = {float(want)!r} "
              f"(err {err:.3e} > tol {tol:.3e}) at s={s!r} m={m!r} t={t!r} v={v!r} K={K!r}",
              got=got, want=float(want), s=s, m=m, t=t, v=v, K=K, kind=kind, call=call)
    tv = abs(float(want) - bsmp.intrinsic(kind, s, m, K, call))
    return tv > 1e-6 * scale


def check_func(case, ctx):
    kind, dtype, call, K = case["kind"], case["dtype"], case["call"], case["strike"]
    dt = DTYPES[dtype]
    s = torch.tensor(case["s"], dtype=dt)
    tv_py = bool(case.get("tv_pyfloat"))
    t = case["t"] if tv_py else torch.tensor(case["t"], dtype=dt)
    v = case["v"] if tv_py else torch.tensor(case["v"], dtype=dt)
    m = None
    if kind in HAS_MAX:
        if case["max_mode"] == "below":
            m = s * (1 - torch.tensor(case["frac"], dtype=dt))
        else:
            m = torch.maximum(s + torch.tensor(case["excess"], dtype=dt), torch.tensor(case["floor"], dtype=dt))
        m = torch.maximum(m, s)  # running max >= spot, elementwise after broadcasting
    strike = torch.tensor(K, dtype=dt) if (case["strike_tensor"] and case["via"] == "functional") else K
    label = f"C07/{kind}"
    with ctx.sut(label):
        out = call_price(kind, case["via"], s, m, t, v, strike, call)

    t_t = torch.as_tensor(t, dtype=dt)
    v_t = torch.as_tensor(v, dtype=dt)
    parts = [s, t_t, v_t] + ([m] if m is not None else [])
    want_shape = torch.broadcast_shapes(*[p.shape for p in parts])
    if not ctx.check(tuple(out.shape) == tuple(want_shape), label + "/shape",
                     f"output shape {tuple(out.shape)} != broadcast shape {tuple(want_shape)}"):
        return
    if not ctx.check(out.dtype == dt, label + "/dtype", f"output dtype {out.dtype} for {dtype} inputs"):
        return
    if not ctx.check(bool(torch.isfinite(out).all()), label + "/value", f"non-finite price {out.tolist()} inside the open domain",
                     s=case["s"], t=case["t"], v=case["v"], K=K):
        return
    S_, T_, V_ = (x.expand(want_shape).reshape(-1) for x in (s, t_t, v_t))
    M_ = m.expand(want_shape).reshape(-1) if m is not None else None
    O_ = out.reshape(-1)
    numel = O_.numel()
    nt = False
    for j in sorted({p % numel for p in case["picks"]}):
        sj, tj, vj = S_[j].item(), T_[j].item(), V_[j].item()
        mj = M_[j].item() if M_ is not None else None
        nt_j = compare_element(ctx, label + "/value", kind, call, dtype, O_[j].item(), sj, mj, tj, vj, K)
        nt = nt or nt_j
        ctx.cls("timevalue:" + str(nt_j), "t:" + ("1" if tj == 1.0 else "not1"), "K:" + ("1" if K == 1.0 else "not1"))
        if mj is not None:
            ctx.cls("max:" + ("==spot" if mj == sj else ">spot"),
                    "max:" + ("<K" if mj < 0 else ("==K" if mj == 0 else ">K")))
    ctx.nontrivial(nt)
    ctx.cls("kind:" + kind, "dtype:" + dtype, "cp:" + ("call" if call else "put"), "shape:" + case["mode"],
            "via:" + case["via"])
    if tv_py:
        ctx.cls("tv:pyfloat")


# --------------------------------------------------------------------------------------------
# modules built from a (simulated) derivative
# --------------------------------------------------------------------------------------------
@st.composite
def module_case(draw):
    ul = draw(primary_spec(types=STOCKS, cost=False, dts=[1 / 250, 1 / 52, 1 / 12, 0.1, 0.5, 1.0]))
    typ = draw(st.sampled_from(OPTIONS))
    if typ in ("EuropeanOption", "EuropeanBinaryOption"):
        call = draw(st.booleans())
    else:
        call = draw(st.sampled_from([True, True, True, False]))
    strike = draw(st.one_of(st.sampled_from([0.9, 1.1, 2.0, 0.5, 1.03, 1.0]), fl(0.11, 10.0), fl(0.5, 2.0)))
    default_init = draw(st.integers(0, 3)) == 0
    s0 = draw(fl(-0.6, 0.6))
    if default_init:  # spot starts at 1: keep the strike within reach
        strike = float(min(max(math.exp(-s0), 0.11), 10.0))
    return {"ul": ul, "type": typ, "call": call, "strike": strike, "default_init": default_init, "s0": s0,
            "v0": draw(fl(0.005, 0.5)), "steps": draw(st.integers(1, 8)), "n_paths": draw(st.integers(1, 4)),
            "seed": draw(seed_s), "frac": draw(st.sampled_from([0.0, 0.0, 0.5, 0.9])),
            "picks": draw(st.lists(st.tuples(st.integers(0, 999), st.integers(0, 999)), min_size=1, max_size=3))}


def check_module(case, ctx):
    import pfhedge.instruments as I
    import pfhedge.nn as nn
    import pfhedge.nn.functional as F

    typ, call, K = case["type"], case["call"], case["strike"]
    kind = KIND_OF[typ]
    ul = build_primary(case["ul"])
    deriv = getattr(I, typ)(ul, call=call, strike=K, maturity=(case["steps"] - case.get("frac", 0.0)) * ul.dt)  # also maturities between two grid points
    bs_cls = getattr(nn, "BS" + typ)
    ctx.cls("deriv:" + typ, "ul:" + case["ul"]["type"], "cp:" + ("call" if call else "put"))

    if kind in HAS_MAX and not call:
        # documented: the lookback / American binary formulas exist for calls only
        ctx.expect_raises("C07/module/put-accepted", (ValueError,), lambda: nn.BlackScholes(deriv))
        ctx.expect_raises("C07/module/put-accepted", (ValueError,), lambda: bs_cls.from_derivative(deriv))
        ctx.expect_raises("C07/module/put-accepted", (ValueError,), lambda: bs_cls(call=False, strike=K))
        ctx.cls("expected:put-rejected")
        return

    with ctx.sut("C07/module/build"):
        mod = nn.BlackScholes(deriv)
        mod2 = bs_cls.from_derivative(deriv)
    for name, mm in (("BlackScholes", mod), ("from_derivative", mod2)):
        ctx.check(type(mm) is bs_cls, "C07/module/class", f"{name}({typ}) built {type(mm).__name__}")
        ctx.check(getattr(mm, "strike", None) == K, "C07/module/strike",
                  f"{name}: module strike {getattr(mm, 'strike', None)!r} != derivative strike {K!r}")
        ctx.check(getattr(mm, "call", None) is call, "C07/module/call",
                  f"{name}: module call flag {getattr(mm, 'call', None)!r} != derivative call flag {call!r}")
        ctx.check(getattr(mm, "derivative", None) is deriv, "C07/module/derivative", f"{name}: module is not bound to the derivative")

    init = None
    if not case["default_init"]:
        init = (K * math.exp(case["s0"]),) + tuple(case["v0"] for _ in ul.default_init_state[1:])
    if case["seed"] % 2 == 1:
        # the modules are long-lived objects: a first simulation (other seed, same or other number of paths) has already
        # been priced before the one that is checked - "uses that derivative's ... simulated state" means the current one
        with ctx.sut("C07/module/simulate"):
            torch.manual_seed(case["seed"] + 7)
            deriv.simulate(n_paths=case["n_paths"] + (case["seed"] // 2) % 2, init_state=init)
        if bool((deriv.ul().spot > 0).all()) and bool(torch.isfinite(deriv.ul().volatility).all()):
            with ctx.sut("C07/module/price"):
                mod.price()
                mod2.price()
            ctx.cls("module:reused-after-resimulate")
    with ctx.sut("C07/module/simulate"):
        torch.manual_seed(case["seed"])
        deriv.simulate(n_paths=case["n_paths"], init_state=init)
    if not (bool((deriv.ul().spot > 0).all()) and bool(torch.isfinite(deriv.ul().spot).all()) and bool(torch.isfinite(deriv.ul().volatility).all())):
        # a coarse Euler step of the local-volatility model left the positive half-line: no price is defined for such a state
        ctx.exclude("simulated-state-outside-quantified-domain")
        ctx.cls("skipped:non-positive-spot")
        return
    with ctx.sut("C07/module/price"):
        got = mod.price()
        got2 = mod2.price()
    with ctx.sut("C07/module/state"):
        s = deriv.log_moneyness()
        t = deriv.time_to_maturity()
        v = deriv.ul().volatility
        m = deriv.max_log_moneyness() if kind in HAS_MAX else None
        ref = call_price(kind, "functional", s, m, t, v, K, call)
    dtype = {torch.float32: "float32", torch.float64: "float64"}[s.dtype]
    ctx.cls("dtype:" + dtype)
    if not ctx.check(tuple(got.shape) == tuple(s.shape), "C07/module/shape", f"price() shape {tuple(got.shape)} != state shape {tuple(s.shape)}"):
        return
    ctx.check(got.dtype == s.dtype, "C07/module/dtype", f"price() dtype {got.dtype} != instrument dtype {s.dtype}")

    # (a) agreement with the functional form on the simulated state (same formula: a few ulps)
    sc = K * torch.exp(torch.maximum(m if m is not None else s, s)).clamp(min=1.0) if kind in ("european", "lookback") else torch.ones_like(s)
    for name, g in (("BlackScholes", got), ("from_derivative", got2)):
        both_nan = torch.isnan(g) & torch.isnan(ref)
        bad = ~both_nan & ~((g - ref).abs() <= 4 * EPS[dtype] * sc)
        if bad.any():
            i = tuple(int(x) for x in bad.nonzero()[0])
            ctx.fail("C07/module/vs-functional",
                     f"{name}({typ}, call={call}, strike={K!r}).price() = {g[i].item()!r} but the functional form on the derivative's "
                     f"state gives {ref[i].item()!r} at path {i[0]}, step {i[1]}", got=g[i].item(), want=ref[i].item(), index=list(i))
        if both_nan.any():
            ctx.cls("state:nan-in-both")

    # (a') a module bound to a derivative takes every argument that is NOT given from the derivative - and only those
    partial = {"log_moneyness": s - 0.0625, "time_to_maturity": t + 0.03125, "volatility": v * 1.25}
    if m is not None:
        partial["max_log_moneyness"] = m + 0.125  # a running maximum supplied by the caller (still above the spot)
    state_ok = all(bool(torch.isfinite(x_).all()) for x_ in (s, t, v) + ((m,) if m is not None else ()))
    if not state_ok:
        # an Euler step of the local-volatility model with a coarse grid can leave the positive half-line: log-moneyness is NaN / -inf
        # there, outside the domain the statement quantifies over (the pricing functions reject such inputs)
        ctx.exclude("element-outside-quantified-domain")
    for arg, val in partial.items():
        if not state_ok or torch.isnan(val).any():
            continue
        with ctx.sut("C07/module/price"):
            gp = mod.price(**{arg: val})
            rp = call_price(kind, "functional", partial["log_moneyness"] if arg == "log_moneyness" else s,
                            partial["max_log_moneyness"] if arg == "max_log_moneyness" else m,
                            partial["time_to_maturity"] if arg == "time_to_maturity" else t,
                            partial["volatility"] if arg == "volatility" else v, K, call)
        badp = ~(torch.isnan(gp) & torch.isnan(rp)) & ~((gp - rp).abs() <= 4 * EPS[dtype] * sc)
        if badp.any():
            i = tuple(int(x) for x in badp.nonzero()[0])
            ctx.fail("C07/module/partial-arguments",
                     f"BlackScholes({typ}).price({arg}=...) = {gp[i].item()!r} but the functional form with that {arg} and the derivative's "
                     f"remaining state gives {rp[i].item()!r} (path {i[0]}, step {i[1]})", argument=arg)
    ctx.cls("module:partial-arguments-checked")

    # (b) sampled elements with t > 0 against the expectation
    n_paths, n_steps = s.shape
    nt = False
    for pi, pj in sorted({(a % n_paths, b % max(n_steps - 1, 1)) for a, b in case["picks"]}):
        sj, tj, vj = s[pi, pj].item(), t[pi, pj].item(), v[pi, pj].item()
        mj = m[pi, pj].item() if m is not None else None
        if not (math.isfinite(sj) and in_domain(sj, mj, tj, vj, K)):
            ctx.exclude("element-outside-quantified-domain")
            continue
        g = got[pi, pj].item()
        nt_j = compare_element(ctx, "C07/module/value", kind, call, dtype, g, sj, mj, tj, vj, K)
        nt = nt or nt_j
        ctx.cls("timevalue:" + str(nt_j), "K:" + ("1" if K == 1.0 else "not1"), "t:" + ("1" if tj == 1.0 else "not1"))
        if mj is not None:
            ctx.cls("max:" + ("==spot" if mj == sj else ">spot"), "max:" + ("<K" if mj < 0 else ">=K"))
    ctx.nontrivial(nt)


# --------------------------------------------------------------------------------------------
# oracle self-check (runs a few times per shard; a failure is a harness error, exit 2)
# --------------------------------------------------------------------------------------------
@st.composite
def selfcheck_case(draw):
    s = draw(fl(-1.0, 1.0))
    return {"which": draw(st.sampled_from(["max_cdf", "lookback"])), "t": draw(fl(0.05, 5.0)), "v": draw(fl(0.05, 2.0)),
            "yfrac": draw(fl(0.05, 3.0)), "s": s, "excess": draw(st.one_of(st.just(0.0), fl(0.0, 1.0))),
            "K": draw(fl(0.11, 10.0))}


def check_selfcheck(case, ctx):
    t, v = case["t"], case["v"]
    if case["which"] == "max_cdf":
        a, b = bsmp.selfcheck_max_cdf(case["yfrac"] * v * math.sqrt(t), t, v)
        scale = 1.0
    else:
        s, K = case["s"], case["K"]
        m = s + case["excess"]
        a, b = bsmp.selfcheck_lookback(s, m, t, v, K)
        scale = K * max(1.0, math.exp(m))
    err = abs(a - b) / scale
    if not err <= 1e-10:
        raise HarnessError(f"oracle self-check {case['which']} failed: closed law {a!r} vs joint-density quadrature {b!r} at {case}")
    ctx.cls("selfcheck:" + case["which"] + (":agree<1e-13" if err < 1e-13 else ":agree<1e-10"))


from . import _batch  # noqa: E402

SUBS = [
    Sub("functional", check_func,
        rule="Hypothesis draws the product (European, European binary: call/put; American binary, lookback: call), dtype "
             "(f64 x3 / f32), shape mode (0-dim / (n) / broadcast (n,1)x(1,k) with v, max in any compatible shape), "
             "s in [-1,1] (incl. 0, +-tiny), t in (0,5] (uniform, log-uniform down to 1e-36, 1, 5), v in (0,2] (uniform, "
             "log-uniform down to 1e-30), K in (0.1,10], running max = max(s+excess, floor) with excess 0 / tiny / <=1.5 and "
             "floor none / exactly the strike / anywhere (60%) or s<0 and max = s*(1-frac) below / exactly at the strike (40%); functional form or free module; up to 3 drawn elements per case are "
             "compared with the 30-digit mpmath expectation. Non-trivial: some compared element has |price - intrinsic| > 1e-6*scale.",
        strategy=lambda tier: func_case(), examples={"quick": 640, "thorough": 25000},
        time_cap={"quick": 120.0, "thorough": 900.0}),
    Sub("module", check_module,
        rule="Hypothesis draws option type x call/put x strike (mostly != 1) x one of the 6 stock models (default / drawn "
             "parameters, dtype None/f32/f64, dt in {1/250,1/52,1/12,0.1,0.5,1}) x 1..8 steps x 1..4 paths x initial spot "
             "K*exp(s0) (or default 1) x torch seed; BlackScholes(derivative) and from_derivative must pick class, strike, "
             "call flag (puts of lookback / American binary must raise ValueError); price() with no arguments is compared with "
             "the functional form on the derivative's state (4 eps) and, on up to 3 drawn elements with t>0 inside the "
             "quantified domain, with the mpmath expectation. Non-trivial: a compared element has time value > 1e-6*scale.",
        strategy=lambda tier: module_case(), examples={"quick": 400, "thorough": 15000},
        time_cap={"quick": 120.0, "thorough": 900.0}),
    Sub("oracle_selfcheck", check_selfcheck,
        rule="oracle validation, not a property case: the running-maximum law and the lookback value used by the oracle are "
             "recomputed by 2-D quadrature of the reflection-principle x Girsanov joint density at drawn (t, v, level / "
             "moneyness, running max, strike); disagreement > 1e-10 is a harness error (exit 2). Never counted as non-trivial.",
        strategy=lambda tier: selfcheck_case(), examples={"quick": 32, "thorough": 320}),
    Sub("batch_independence", lambda case, ctx: _batch.check_batch(case, ctx, _batch.PRICES, "C07"),
        rule="2..7 points of the open domain per call (log-moneyness incl. exact 0, running maximum on both sides of the strike, hit and "
             "not-hit barriers in any order) as vector / column / matrix: the price at an element of the batch must equal the price of that "
             "element evaluated alone (which the functional sub ties to the expectation). Non-trivial: hit and not-hit barriers in one batch.",
        strategy=lambda tier: _batch.batch_case(boundary=False), examples={"quick": 1500, "thorough": 15000}),
]

META = {
    "technique": "property-based testing: Hypothesis-generated parameter tensors / simulated derivatives vs 30-digit mpmath "
                 "quadrature of the payoff against the lognormal and running-maximum laws",
    "level_text": "Exploration: ~1.3*10^3 (quick) / 5*10^4 (thorough) generated quadrature points per run over the quantified domain, all four "
                  "products, calls and puts, float64 and float32, scalar / vector / broadcast shapes, functional forms, free "
                  "modules and modules bound to simulated derivatives; each compared with an expectation computed independently "
                  "of the closed forms (oracle itself re-validated every run against the joint density of Brownian motion and its maximum).",
}
