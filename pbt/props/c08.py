"""C08 - Greeks are the derivatives of the price.

Sub-checks
  closed_forms   functional forms, free modules and derivative-built modules called with arguments:
                 delta/gamma/vega/theta against (1) Ridders-extrapolated central differences of the
                 *same object's own price* in float64 (independent of autograd and of every closed
                 form) and (2) torch.autograd.grad applied directly to that price (tight).
  bound_modules  modules built from a simulated derivative, Greeks called with no arguments, compared
                 with the same two oracles evaluated on the simulated state (open-domain elements only).
  autogreek      sympy-generated smooth user pricers under every accepted parameterisation and
                 signature subset; oracle = symbolic derivative evaluated in mpmath (60 digits).
  selfcheck      the oracles against exactly known derivatives (harness error if they are off).
"""
import math

import numpy as np
import torch
from hypothesis import strategies as st

from ..core import HarnessError, Sub
from ..gens import seed_s
from ..oracles import numdiff, symgreek

PROPERTY_ID = "C08"
EPS = 2.0 ** -52
GREEKS = ("delta", "gamma", "vega", "theta")
FAMILIES = ("european", "european_binary", "american_binary", "lookback")
PATH_DEP = ("american_binary", "lookback")

RIDDERS_SAFETY = 100.0
ABS_FLOOR = 1e-7          # x natural scale of the Greek (DESIGN 3/C08)
NONTRIVIAL = 1e-6         # |Greek| above this fraction of its scale
REL2 = 1e-9               # secondary oracle (autograd of the price): relative part
ABS2 = 100.0 * EPS        # ... absolute part, x (1 + 3/w + w) x scale (rounding of d1/d2 = s/w +- w/2)

ASSUMPTIONS = [
    "float64 throughout; the open domain is sampled at time_to_maturity in [1e-3, 5], volatility in [1e-3, 2], "
    "strike in (0.1, 10], log-moneyness in [-1, 1]; path-dependent options with running max strictly above spot "
    "and held fixed while spot moves",
    "primary tolerance 100 * (Ridders error estimate incl. explicit round-off term) + 1e-7 * natural scale; natural "
    "scales: vanilla [1, 1/(S w), S sqrt(t), S v/sqrt(t)] with w = v sqrt(t); lookback the same x (1+w)^2 (its price "
    "carries the factor 1 + s + w^2/2); binaries (price of order 1, not of order S) the vanilla scale x (1+w)/(S w)",
    "secondary tolerance 1e-9*|autograd value| + 100*eps*(1 + 3/w + w)*scale: d1, d2 = s/w +- w/2 carry an absolute "
    "rounding error eps*(|s|/w + w/2) which both the closed form and autograd inherit",
    "autogreek tolerance 1e-9*|exact| + 1000 * first-order running error bound of a float64 forward-mode evaluation "
    "of the same derivative (leaves perturbed by 8 eps for the exp/log and square/sqrt round trips)",
    "a Python-float strike (functional argument or module attribute) reaches pfhedge.autogreek through torch.as_tensor, "
    "i.e. the default dtype float32 (DESIGN 2.1 representation convention): float32-representable strikes and float64 "
    "tensor strikes are compared at full resolution, other float strikes (0.9, 1.1, ...) with the extra slack "
    "2^-23 * (1 + 3/w + w) * scale of a log-moneyness shifted by one float32 ulp of the strike",
    "a Greek is only requested from autogreek for a pricer whose signature consumes a parameterisation of the "
    "differentiated variable (otherwise torch.autograd.grad has nothing to differentiate)",
]


# =========================================================================================
# helpers shared by closed_forms and bound_modules
# =========================================================================================
def _f64(x):
    return torch.as_tensor(np.asarray(x, dtype=np.float64))


def scales(family, S, t, v):
    """natural scale of each Greek (numpy arrays)"""
    w = v * np.sqrt(t)
    base = {"delta": np.ones_like(S), "gamma": 1.0 / (S * w), "vega": S * np.sqrt(t), "theta": S * v / np.sqrt(t)}
    if family == "lookback":
        fac = (1.0 + w) ** 2
    elif family in ("european_binary", "american_binary"):
        fac = (1.0 + w) / (S * w)
    else:
        fac = np.ones_like(S)
    return {g: base[g] * fac for g in GREEKS}


def price_fn(family, form, K, call, module=None, strike_obj=None):
    """-> price(lm, m, t, v) of the object whose Greeks are tested (its *own* price)."""
    import pfhedge.nn.functional as F

    k = K if strike_obj is None else strike_obj
    if form == "functional":
        if family == "european":
            return lambda lm, m, t, v: F.bs_european_price(lm, t, v, strike=k, call=call)
        if family == "european_binary":
            return lambda lm, m, t, v: F.bs_european_binary_price(lm, t, v, call=call)
        if family == "american_binary":
            return lambda lm, m, t, v: F.bs_american_binary_price(lm, m, t, v)
        return lambda lm, m, t, v: F.bs_lookback_price(lm, m, t, v, k)
    if family in PATH_DEP:
        return lambda lm, m, t, v: module.price(log_moneyness=lm, max_log_moneyness=m, time_to_maturity=t, volatility=v)
    return lambda lm, m, t, v: module.price(log_moneyness=lm, time_to_maturity=t, volatility=v)


def greek_fn(family, form, greek, K, call, module=None, strike_obj=None):
    """-> greek(lm, m, t, v) with arguments passed explicitly."""
    import pfhedge.nn.functional as F

    k = K if strike_obj is None else strike_obj
    if form == "functional":
        fn = getattr(F, f"bs_{family}_{greek}")
        if family == "european":
            if greek == "delta":
                return lambda lm, m, t, v: fn(lm, t, v, call=call)
            return lambda lm, m, t, v: fn(lm, t, v, strike=k)
        if family == "european_binary":
            return lambda lm, m, t, v: fn(lm, t, v, call=call, strike=k)
        return lambda lm, m, t, v: fn(lm, m, t, v, strike=k)
    meth = getattr(module, greek)
    if family in PATH_DEP:
        return lambda lm, m, t, v: meth(log_moneyness=lm, max_log_moneyness=m, time_to_maturity=t, volatility=v)
    return lambda lm, m, t, v: meth(log_moneyness=lm, time_to_maturity=t, volatility=v)


def ridders_greeks(price, K, s, m, t, v, family):
    """Ridders differences of the price at the points (numpy arrays). -> {greek: (value, est)}"""
    S = K * np.exp(s)
    w = v * np.sqrt(t)
    mt = None if m is None else _f64(m)
    tt, vt = _f64(t), _f64(v)

    def P(lm, m_, t_, v_):
        with torch.no_grad():
            out = price(lm, m_, t_, v_)
        return out.detach().numpy().astype(np.float64)

    f_S = lambda x: P(torch.log(_f64(x) / K), mt, tt, vt)
    f_v = lambda x: P(_f64(s), mt, tt, _f64(x))
    f_t = lambda x: P(_f64(s), mt, _f64(x), vt)
    # steps: the price varies with log S on the scale w, and with log v / log t on the scale 1/|d|
    h_S = S * np.minimum(0.25, 0.5 * w)
    gap = np.abs(s) if m is None else np.maximum(np.abs(s), np.abs(s - m))
    rel = 0.5 / (1.0 + gap / w + 0.5 * w)
    # magnitude of the terms the price is assembled from (round-off level of the price)
    if family == "lookback":
        fs = (S + K + K * np.exp(m)) * (1.0 + w) ** 2
    elif family == "european":
        fs = S + K
    else:
        fs = 2.0
    out = {}
    out["delta"] = numdiff.ridders(f_S, S, h_S, 1, fscale=fs)
    out["gamma"] = numdiff.ridders(f_S, S, h_S, 2, fscale=fs)
    out["vega"] = numdiff.ridders(f_v, v, v * rel, 1, fscale=fs)
    th, e = numdiff.ridders(f_t, t, t * rel, 1, fscale=fs)
    out["theta"] = (-th, e)
    return out


def autograd_greeks(price, K, s, m, t, v):
    """torch.autograd.grad applied directly to the price (not through pfhedge.autogreek)."""
    S = _f64(K * np.exp(s)).requires_grad_()
    vt = _f64(v).requires_grad_()
    tt = _f64(t).requires_grad_()
    mt = None if m is None else _f64(m)
    with torch.enable_grad():
        p = price(torch.log(S / K), mt, tt, vt)
        ones = torch.ones_like(p)
        d, = torch.autograd.grad(p, S, ones, create_graph=True)
        if d.requires_grad:
            g, = torch.autograd.grad(d, S, torch.ones_like(d), retain_graph=True)
        else:  # price locally constant in spot
            g = torch.zeros_like(d)
        ve, = torch.autograd.grad(p, vt, ones, retain_graph=True, allow_unused=True)
        th, = torch.autograd.grad(p, tt, ones, retain_graph=True, allow_unused=True)
    z = torch.zeros_like(p)
    ve = z if ve is None else ve
    th = z if th is None else th
    return {"delta": d.detach().numpy(), "gamma": g.detach().numpy(), "vega": ve.detach().numpy(),
            "theta": -th.detach().numpy()}


def compare_greeks(ctx, family, got, rid, ad, K, s, m, t, v, where, kres=0.0):
    """got: {greek: numpy array}; one violation per (family, greek, oracle)."""
    shape = np.shape(s)
    s, t, v = np.ravel(s), np.ravel(t), np.ravel(v)
    m = None if m is None else np.ravel(m)
    rid = {g: (np.ravel(a), np.ravel(b)) for g, (a, b) in rid.items()}
    ad = {g: np.ravel(a) for g, a in ad.items()}
    S = K * np.exp(s)
    w = v * np.sqrt(t)
    sc = scales(family, S, t, v)
    # a strike seen at relative resolution kres shifts log-moneyness by kres: Greek changes by kres * (1 + 3/w + w) * scale
    kslack = kres * (1.0 + 3.0 / w + w)
    any_nt = False
    general = (t != 1.0) & (K != 1.0)
    for g in GREEKS:
        x = np.asarray(got[g], dtype=np.float64)
        if x.shape != shape:
            ctx.fail(f"C08/{family}/{g}/shape", f"{where}: shape {x.shape} != {shape}")
            continue
        x = x.reshape(-1)
        ref, est = rid[g]
        tol = RIDDERS_SAFETY * est + (ABS_FLOOR + kslack) * sc[g]
        err = np.abs(x - ref)
        bad = ~(err <= tol)  # NaN counts as a failure
        if bad.any():
            i = int(np.argmax(np.where(np.isfinite(err), err / tol, np.inf)))
            ctx.fail(f"C08/{family}/{g}/ridders",
                     f"{where} {g}: got {x[i]!r}, Ridders d(price) {ref[i]!r} (+-{est[i]:.2e}), autograd d(price) "
                     f"{ad[g][i]!r}, tol {tol[i]:.2e} at s={s[i]!r} t={t[i]!r} v={v[i]!r} K={K!r}"
                     + ("" if m is None else f" m={m[i]!r}"),
                     got=float(x[i]), ridders=float(ref[i]), est=float(est[i]), autograd=float(ad[g][i]),
                     s=float(s[i]), t=float(t[i]), v=float(v[i]), K=float(K), m=None if m is None else float(m[i]))
        loose = RIDDERS_SAFETY * est > 1e-3 * sc[g]
        if loose.any():
            ctx.cls(f"oracle:ridders-loose/{g}")
        a = ad[g]
        tol2 = REL2 * np.abs(a) + (ABS2 * (1.0 + 3.0 / w + w) + kslack) * sc[g]
        err2 = np.abs(x - a)
        bad2 = ~(err2 <= tol2)
        if bad2.any():
            i = int(np.argmax(np.where(np.isfinite(err2), err2 / tol2, np.inf)))
            ctx.fail(f"C08/{family}/{g}/autograd",
                     f"{where} {g}: got {x[i]!r}, autograd d(price) {a[i]!r}, Ridders {ref[i]!r} (+-{est[i]:.2e}), "
                     f"tol {tol2[i]:.2e} at s={s[i]!r} t={t[i]!r} v={v[i]!r} K={K!r}"
                     + ("" if m is None else f" m={m[i]!r}"),
                     got=float(x[i]), autograd=float(a[i]), ridders=float(ref[i]), est=float(est[i]),
                     s=float(s[i]), t=float(t[i]), v=float(v[i]), K=float(K), m=None if m is None else float(m[i]))
        nt = general & (np.abs(ref) > NONTRIVIAL * sc[g]) & ~loose
        if nt.any():
            any_nt = True
            ctx.cls(f"nontrivial:{family}/{g}")
    ctx.nontrivial(any_nt)


def make_module(family, K, call, bound):
    import pfhedge.instruments as I
    import pfhedge.nn as N

    cls = {"european": N.BSEuropeanOption, "european_binary": N.BSEuropeanBinaryOption,
           "american_binary": N.BSAmericanBinaryOption, "lookback": N.BSLookbackOption}[family]
    if not bound:
        return cls(call=call, strike=K)
    dcls = {"european": I.EuropeanOption, "european_binary": I.EuropeanBinaryOption,
            "american_binary": I.AmericanBinaryOption, "lookback": I.LookbackOption}[family]
    deriv = dcls(I.BrownianStock(dtype=torch.float64), call=call, strike=K, maturity=0.1)
    return cls.from_derivative(deriv)


# =========================================================================================
# closed_forms
# =========================================================================================
def _f32(x: float) -> float:
    return float(np.float32(x))


# Strikes: a Python-float strike reaches autogreek through torch.as_tensor (default dtype float32; DESIGN 2.1
# representation convention), so full-resolution comparisons use float32-representable strikes; other strikes
# (0.9, 1.1, arbitrary float64) are kept as a class and compared at float32 resolution of the strike.
strike_s = st.one_of(
    st.sampled_from([1.0, 0.5, 2.0, 10.0, 0.75, 1.25, _f32(0.9), _f32(1.1)]),
    st.floats(0.1 + 1e-6, 10.0).map(_f32),
    st.floats(0.5, 2.0).map(_f32),
    st.sampled_from([0.9, 1.1, 1.03]),
    st.floats(0.1 + 1e-6, 10.0),
)


def strike_resolution(K: float, as_tensor64: bool) -> float:
    """relative resolution at which pfhedge sees the strike"""
    return 0.0 if (as_tensor64 or _f32(K) == K) else 2.0 ** -23


def _loguniform(draw, lo, hi):
    return math.exp(draw(st.floats(math.log(lo), math.log(hi), allow_nan=False)))


@st.composite
def point(draw, path_dep, family):
    tk = draw(st.sampled_from(["uni", "uni", "log", "one"]))
    t = {"uni": lambda: draw(st.floats(0.01, 5.0)), "log": lambda: _loguniform(draw, 1e-3, 5.0), "one": lambda: 1.0}[tk]()
    vk = draw(st.sampled_from(["uni", "uni", "log", "wide"]))
    v = {"uni": lambda: draw(st.floats(0.05, 1.0)), "log": lambda: _loguniform(draw, 1e-3, 2.0),
         "wide": lambda: draw(st.floats(0.01, 2.0))}[vk]()
    w = v * math.sqrt(t)
    if draw(st.booleans()):
        s = draw(st.floats(-1.0, 1.0))
    else:  # around the strike on the scale of the total volatility, where the Greeks live
        s = max(-1.0, min(1.0, draw(st.floats(-4.0, 4.0)) * w))
    p = {"s": s, "t": t, "v": v}
    if path_dep:
        mk = draw(st.sampled_from(["near", "frac", "frac", "above"] if family == "american_binary" else ["near", "frac", "above"]))
        if family == "american_binary" and s > 0 and draw(st.integers(0, 3)) != 0:
            s = p["s"] = -s  # spot above the strike implies max >= strike (price identically 1): keep only a quarter
        if mk == "near":
            m = s + draw(st.floats(1e-3, 3.0)) * w
        elif mk == "frac" and s < 0:  # between the spot and the strike
            m = s * (1.0 - draw(st.floats(0.01, 0.99)))
        else:
            m = s + draw(st.floats(1e-3, 1.5))
        if not m > s:
            m = s + 1e-6
        p["m"] = m
    return p


@st.composite
def closed_case(draw):
    family = draw(st.sampled_from(FAMILIES))
    form = draw(st.sampled_from(["functional", "functional", "module_free", "module_bound_args"]))
    call = draw(st.booleans()) if family in ("european", "european_binary") else True
    K = draw(strike_s)
    n = draw(st.integers(0, 4))  # 0: scalar tensors of shape ()
    pts = draw(st.lists(point(family in PATH_DEP, family), min_size=max(n, 1), max_size=max(n, 1)))
    return {"family": family, "form": form, "call": call, "K": K, "scalar": n == 0, "points": pts,
            "strike_tensor": draw(st.booleans()) if form == "functional" else False}


def _arrays(case):
    pts = case["points"]
    shape = () if case["scalar"] else (len(pts),)
    arr = lambda k: np.array([p[k] for p in pts], dtype=np.float64).reshape(shape)
    s, t, v = arr("s"), arr("t"), arr("v")
    m = arr("m") if case["family"] in PATH_DEP else None
    return s, m, t, v


def check_closed(case, ctx):
    family, form, call, K = case["family"], case["form"], case["call"], float(case["K"])
    s, m, t, v = _arrays(case)
    module = None
    if form != "functional":
        with ctx.sut(f"C08/{family}/construct"):
            module = make_module(family, K, call, bound=(form == "module_bound_args"))
    strike_obj = torch.tensor(K, dtype=torch.float64) if case["strike_tensor"] else None
    price = price_fn(family, form, K, call, module, strike_obj)
    lm = _f64(s)
    mt = None if m is None else _f64(m)
    tt, vt = _f64(t), _f64(v)
    got = {}
    for g in GREEKS:
        fn = greek_fn(family, form, g, K, call, module, strike_obj)
        with ctx.sut(f"C08/{family}/{g}"):
            got[g] = fn(lm, mt, tt, vt).detach().numpy()
    with ctx.sut(f"C08/{family}/price"):
        rid = ridders_greeks(price, K, s, m, t, v, family)
        ad = autograd_greeks(price, K, s, m, t, v)
    kres = strike_resolution(K, case["strike_tensor"])
    compare_greeks(ctx, family, got, rid, ad, K, s, m, t, v, where=f"{form} {family} call={call}", kres=kres)
    ctx.cls("strike:" + ("tensor64" if case["strike_tensor"] else "float-f32exact" if kres == 0.0 else "float-not-f32"))
    ctx.cls("family:" + family, "form:" + form, "call:" + str(call), "shape:" + ("()" if case["scalar"] else "(n)"),
            "K=1:" + str(K == 1.0))
    if (t == 1.0).any():
        ctx.cls("t=1:some")
    if m is not None:
        ctx.cls("max>=strike:" + str(bool((m >= 0).any())))


# =========================================================================================
# bound_modules
# =========================================================================================
@st.composite
def bound_case(draw):
    family = draw(st.sampled_from(FAMILIES))
    return {
        "family": family,
        "call": draw(st.booleans()) if family in ("european", "european_binary") else True,
        "K": draw(st.one_of(st.sampled_from([1.0, 0.75, 1.25, _f32(0.9), _f32(1.1)]), st.floats(0.7, 1.4).map(_f32),
                            st.sampled_from([0.9, 1.1, 1.03]))),
        "sigma": draw(st.one_of(st.sampled_from([0.2]), st.floats(0.05, 0.8))),
        "mu": draw(st.sampled_from([0.0, 0.0, 0.1, -0.2])),
        "dt": draw(st.sampled_from([1 / 250, 1 / 52, 1 / 12, 0.1, 0.25])),
        "steps": draw(st.integers(2, 8)),
        "n_paths": draw(st.integers(1, 3)),
        "seed": draw(seed_s),
        "ctor": draw(st.sampled_from(["factory", "from_derivative"])),
    }


def check_bound(case, ctx):
    import pfhedge.instruments as I
    import pfhedge.nn as N

    family, call, K = case["family"], case["call"], float(case["K"])
    dcls = {"european": I.EuropeanOption, "european_binary": I.EuropeanBinaryOption,
            "american_binary": I.AmericanBinaryOption, "lookback": I.LookbackOption}[family]
    mcls = {"european": N.BSEuropeanOption, "european_binary": N.BSEuropeanBinaryOption,
            "american_binary": N.BSAmericanBinaryOption, "lookback": N.BSLookbackOption}[family]
    with ctx.sut(f"C08/{family}/bound/construct"):
        stock = I.BrownianStock(sigma=case["sigma"], mu=case["mu"], dt=case["dt"], dtype=torch.float64)
        deriv = dcls(stock, call=call, strike=K, maturity=case["steps"] * case["dt"])
        torch.manual_seed(case["seed"])
        deriv.simulate(n_paths=case["n_paths"])
        module = N.BlackScholes(deriv) if case["ctor"] == "factory" else mcls.from_derivative(deriv)
    if not ctx.check(isinstance(module, mcls), f"C08/{family}/bound/class", f"BlackScholes(derivative) built {type(module).__name__}"):
        return
    lm_full = deriv.log_moneyness().detach().numpy().astype(np.float64)
    t_full = deriv.time_to_maturity().detach().numpy().astype(np.float64)
    v_full = stock.volatility.detach().numpy().astype(np.float64)
    m_full = deriv.max_log_moneyness().detach().numpy().astype(np.float64) if family in PATH_DEP else None
    got_full = {}
    for g in GREEKS:
        with ctx.sut(f"C08/{family}/{g}"):
            out = getattr(module, g)()
        if not ctx.check(tuple(out.shape) == lm_full.shape, f"C08/{family}/{g}/shape",
                         f"bound {g}() shape {tuple(out.shape)} != state shape {lm_full.shape}"):
            return
        got_full[g] = out.detach().numpy()
    keep = t_full > 0.5 * case["dt"]  # t = 0 is the closed end of the domain (K3 / C18)
    ctx.exclude("t=0", int((~keep).sum()))
    if m_full is not None:
        kink = keep & ~(m_full > lm_full)  # running max == spot: the price has a kink in spot
        ctx.exclude("max==spot", int(kink.sum()))
        keep = keep & (m_full > lm_full)
    if not keep.any():
        ctx.cls("no-open-domain-element")
        return
    s, t, v = lm_full[keep], t_full[keep], v_full[keep]
    m = None if m_full is None else m_full[keep]
    got = {g: got_full[g][keep] for g in GREEKS}
    price = price_fn(family, "module", K, call, module)
    with ctx.sut(f"C08/{family}/price"):
        rid = ridders_greeks(price, K, s, m, t, v, family)
        ad = autograd_greeks(price, K, s, m, t, v)
    kres = strike_resolution(K, False)
    compare_greeks(ctx, family, got, rid, ad, K, s, m, t, v, where=f"derivative-bound {family} call={call} (no arguments)",
                   kres=kres)
    ctx.cls("strike:" + ("float-f32exact" if kres == 0.0 else "float-not-f32"))
    ctx.cls("family:" + family, "call:" + str(call), "ctor:" + case["ctor"], "K=1:" + str(K == 1.0))


# =========================================================================================
# autogreek with generated pricers
# =========================================================================================
def _dyadic(lo: int, hi: int, den: int):
    return st.integers(lo, hi).map(lambda k: k / float(den))


def _tree(vars_, depth=4):
    """expression trees of bounded depth; constants k/64, exponents k/16 (exact in float64 and as Rationals)"""
    var = st.sampled_from(vars_)
    leaf = st.one_of(
        var.map(lambda x: [x]),
        var.map(lambda x: [x]),
        _dyadic(-128, 128, 64).map(lambda c: ["c", c]),
        st.tuples(var, _dyadic(-24, 40, 16)).map(lambda p: ["powp", p[0], p[1]]),
        st.tuples(var, _dyadic(-64, 64, 64)).map(lambda p: ["expl", p[0], p[1] * (0.25 if p[0] == "S" else 1.0)]),
        var.map(lambda x: ["logp", x]),
        var.map(lambda x: ["sqrtp", x]),
    )
    node = leaf
    for level in range(depth):
        grow = [
            st.tuples(st.sampled_from(symgreek.UNARY), node).map(list),
            st.tuples(st.sampled_from(symgreek.BINARY), node, node).map(list),
            st.tuples(st.sampled_from(symgreek.BINARY), node, leaf).map(list),
        ]
        # the two outermost levels always apply an operation (bare leaves are kept as a small class)
        node = st.one_of(*grow) if level >= depth - 2 else st.one_of(leaf, *grow)
    return st.one_of(node, node, node, node, node, node, node, leaf)


PASSED_SPOT = ("spot", "spot+strike", "moneyness", "log_moneyness")
# a user pricer may consume several of the spot-like parameters at once (autogreek provides all of them consistently)
PRICER_SPOT = ("spot", "moneyness", "log_moneyness", "spot+log_moneyness", "spot+moneyness")
VOLS = ("volatility", "variance")


@st.composite
def autogreek_case(draw):
    vars_ = draw(st.sampled_from([["S", "v", "t"], ["S", "v", "t"], ["S", "v"], ["S", "t"], ["v", "t"], ["S"], ["v"], ["t"]]))
    tree = draw(_tree(vars_))
    used = symgreek.variables_of(tree)
    for x in vars_:  # the pricer depends on every parameter it takes
        if x not in used:
            extra = draw(st.sampled_from([[x], ["sqrtp", x], ["logp", x], ["powp", x, 1.5], ["powp", x, -0.5],
                                          ["expl", x, -0.125], ["sin", [x]], ["gauss", ["logp", x]]]))
            tree = [draw(st.sampled_from(["add", "mul"])), tree, extra]
    passed_spot = draw(st.sampled_from(PASSED_SPOT))
    if passed_spot == "spot":
        pricer_spot, pricer_strike = "spot", False
    else:
        pricer_spot = draw(st.sampled_from(PRICER_SPOT))
        pricer_strike = draw(st.booleans())
    n = draw(st.integers(0, 3))
    pts = draw(st.lists(st.fixed_dictionaries({
        "lm": st.floats(-1.0, 1.0),
        "v": st.one_of(st.floats(0.05, 1.0), st.floats(1e-3, 2.0)),
        "t": st.one_of(st.floats(0.01, 5.0), st.floats(0.01, 1.0), st.floats(0.5, 2.0), st.floats(1e-3, 0.1), st.just(1.0)),
    }), min_size=max(n, 1), max_size=max(n, 1)))
    strike_as = draw(st.sampled_from(["float", "tensor0", "tensor_n"]))
    K = draw(st.one_of(st.sampled_from([1.0, 0.5, 2.0]), st.floats(0.1 + 1e-6, 10.0)))
    if strike_as == "float":
        K = _f32(K)  # a Python-float strike is seen through the default dtype (DESIGN 2.1): keep it representable
    return {
        "tree": tree, "vars": vars_, "K": K,
        "scalar": n == 0, "points": pts,
        "passed_spot": passed_spot, "pricer_spot": pricer_spot, "pricer_strike": pricer_strike,
        "passed_vol": draw(st.sampled_from(VOLS)), "pricer_vol": draw(st.sampled_from(VOLS)),
        "strike_as": strike_as,
        "create_graph": draw(st.booleans()), "pass_unused": draw(st.booleans()), "junk": draw(st.booleans()),
    }


def make_pricer(tree, vars_, pricer_spot, pricer_strike, pricer_vol, K):
    """A Python function with an explicit signature (autogreek filters its kwargs by inspect.signature)."""
    names = []
    if "S" in vars_:
        names.extend(pricer_spot.split("+"))
        if pricer_strike:
            names.append("strike")
    if "v" in vars_:
        names.append(pricer_vol)
    if "t" in vars_:
        names.append("time_to_maturity")

    def impl(d):
        S = v = t = None
        if "S" in vars_:
            k = d["strike"] if pricer_strike else K
            if "+" in pricer_spot:  # geometric mean of the two consistent views of the spot
                other = pricer_spot.split("+")[1]
                S2 = d[other] * k if other == "moneyness" else d[other].exp() * k
                S = (d["spot"] * S2).sqrt()
            else:
                x = d[pricer_spot]
                S = x if pricer_spot == "spot" else (x * k if pricer_spot == "moneyness" else x.exp() * k)
        if "v" in vars_:
            v = d[pricer_vol] if pricer_vol == "volatility" else d[pricer_vol].sqrt()
        if "t" in vars_:
            t = d["time_to_maturity"]
        return symgreek.to_torch(tree, S, v, t)

    src = "lambda " + ", ".join(names) + ": impl({" + ", ".join(f"'{n}': {n}" for n in names) + "})"
    return eval(src, {"impl": impl}), names  # noqa: S307 - generated from a fixed vocabulary


def check_autogreek(case, ctx):
    import pfhedge.autogreek as ag

    tree, vars_, K = case["tree"], case["vars"], float(case["K"])
    pts = case["points"]
    shape = () if case["scalar"] else (len(pts),)
    npts = len(pts)
    lm = np.array([p["lm"] for p in pts])
    S = K * np.exp(lm)
    v = np.array([p["v"] for p in pts])
    t = np.array([p["t"] for p in pts])
    cg = case["create_graph"]
    pricer, names = make_pricer(tree, vars_, case["pricer_spot"], case["pricer_strike"], case["pricer_vol"], K)
    sym = symgreek.SymPricer(tree)

    def tens(a, grad=False):
        x = torch.tensor(np.asarray(a, dtype=np.float64).reshape(shape))
        return x.requires_grad_() if grad else x

    def strike_value():
        if case["strike_as"] == "float":
            return K
        if case["strike_as"] == "tensor0" or case["scalar"]:
            return torch.tensor(K, dtype=torch.float64)
        return torch.full(shape, K, dtype=torch.float64)

    def spot_params(kind, grad=False):
        """-> (kwargs, leaf, d spot / d leaf)"""
        if kind == "spot":
            x = tens(S, grad)
            return {"spot": x}, x, np.ones(npts)
        if kind == "spot+strike":
            x = tens(S, grad)
            return {"spot": x, "strike": strike_value()}, x, np.ones(npts)
        if kind == "moneyness":
            x = tens(S / K, grad)
            return {"moneyness": x, "strike": strike_value()}, x, np.full(npts, K)
        x = tens(lm, grad)
        return {"log_moneyness": x, "strike": strike_value()}, x, S

    def vol_params(kind, grad=False):
        if kind == "volatility":
            x = tens(v, grad)
            return {"volatility": x}, x, np.ones(npts)
        x = tens(v * v, grad)
        return {"variance": x}, x, 1.0 / (2.0 * v)  # d sigma / d variance

    def own_spot_params():  # what the pricer itself consumes (for Greeks that do not touch spot)
        if "S" not in vars_:
            return {}
        views = {"spot": S, "moneyness": S / K, "log_moneyness": lm}
        kw = {name: tens(views[name]) for name in case["pricer_spot"].split("+")}
        if case["pricer_strike"]:
            kw["strike"] = strike_value()
        return kw

    def others(skip):
        kw = {}
        if skip != "S":
            kw.update(own_spot_params())
            if "S" not in vars_ and case["pass_unused"]:
                kw.update(spot_params(case["passed_spot"])[0])
        if skip != "v":
            if "v" in vars_:
                kw.update(vol_params(case["pricer_vol"])[0])
            elif case["pass_unused"]:
                kw.update(vol_params(case["passed_vol"])[0])
        if skip != "t":
            if "t" in vars_ or case["pass_unused"]:
                kw["time_to_maturity"] = tens(t)
        if case["junk"]:
            kw["max_log_moneyness"] = tens(lm + 0.1)  # a parameter the pricer does not take: must be dropped
        return kw

    def exact(var, order, sign=1.0):
        """mpmath value of the symbolic derivative and the running-error scale, per point"""
        want, err = np.empty(npts), np.empty(npts)
        for i in range(npts):
            Si, vi, ti = float(S[i]), float(v[i]), float(t[i])
            want[i] = sign * float(sym.eval_mp(var, order, Si, vi, ti))
            d = symgreek.running(tree, Si, vi, ti, var)
            r = d.d1 if order == 1 else d.d2
            err[i] = r.e
            if not abs(r.x - sign * want[i]) <= 100 * r.e + 1e-300:
                raise HarnessError(f"oracle self-inconsistency: sympy/mpmath {sign * want[i]!r} vs dual numbers {r.x!r} "
                                   f"(bound {r.e:.2e}) for d^{order}/d{var}^{order} of {tree!r} at {(Si, vi, ti)}")
        return want, err

    def compare(label, out, want, err, factor=None):
        x = out.detach().numpy().astype(np.float64).reshape(-1) if tuple(out.shape) == shape else None
        if x is None:
            ctx.fail(label + "/shape", f"shape {tuple(out.shape)} != {shape}")
            return
        if factor is not None:
            want, err = want * factor, err * np.abs(factor)
        tol = 1e-9 * np.abs(want) + 1000.0 * err + 1e-300
        e = np.abs(x - want)
        bad = ~(e <= tol)
        if bad.any():
            i = int(np.argmax(np.where(np.isfinite(e), e / tol, np.inf)))
            ctx.fail(label + "/value", f"got {x[i]!r}, exact {want[i]!r}, tol {tol[i]:.2e} at S={S[i]!r} v={v[i]!r} t={t[i]!r} K={K!r}; "
                                       f"pricer({', '.join(names)}) = {sym.expr}",
                     got=float(x[i]), want=float(want[i]), S=float(S[i]), v=float(v[i]), t=float(t[i]))
        return np.abs(want) > NONTRIVIAL * (err / EPS)

    general = (t != 1.0) & (K != 1.0)
    any_nt = False
    done = []

    def run(greek, var, order, sign, kwargs, leaf, dleaf):
        nonlocal any_nt
        with ctx.sut(f"C08/autogreek/{greek}"):
            try:
                out = getattr(ag, greek)(pricer, create_graph=cg, **kwargs)
            except RuntimeError as exc:
                if greek == "gamma" and "used in the graph" in str(exc) and sym.deriv("S", 2) == 0:
                    # the pricer is affine in spot: gamma is identically 0, autogreek.gamma raises instead
                    ctx.fail("C08/autogreek/gamma/affine-in-spot-raises",
                             f"gamma of a pricer that is affine in spot must be 0, got RuntimeError: {exc}"[:300]
                             + f"; pricer({', '.join(names)}) = {sym.expr}")
                    return
                raise
        want, err = exact(var, order, sign)
        nt = compare(f"C08/autogreek/{greek}", out, want, err)
        done.append(greek)
        if nt is not None and (nt & general).any():
            any_nt = True
            ctx.cls("nontrivial:" + greek)
        if cg and order == 1 and tuple(out.shape) == shape:
            # "allowing to compute higher order derivative products": differentiate the Greek once more with
            # respect to the user's own leaf tensor (a Greek that is constant in it legitimately has no graph)
            w2, e2 = exact(var, 2, sign)
            if out.requires_grad:
                with ctx.sut("C08/autogreek/create_graph/second-order"):
                    g2, = torch.autograd.grad(out, leaf, torch.ones_like(out), allow_unused=True)
                g2 = torch.zeros_like(out) if g2 is None else g2
            else:
                ctx.cls("create_graph:no-graph")
                g2 = torch.zeros_like(out)
            compare("C08/autogreek/create_graph/second-order", g2, w2, e2, factor=dleaf)

    if "S" in vars_:
        for greek, order in (("delta", 1), ("gamma", 2)):
            kw, leaf, dleaf = spot_params(case["passed_spot"], grad=cg)
            kw.update(others("S"))
            run(greek, "S", order, 1.0, kw, leaf, dleaf)
    if "v" in vars_:
        kw, leaf, dleaf = vol_params(case["passed_vol"], grad=cg)
        kw.update(others("v"))
        run("vega", "v", 1, 1.0, kw, leaf, dleaf)
    if "t" in vars_:
        x = tens(t, grad=cg)
        kw = {"time_to_maturity": x}
        kw.update(others("t"))
        run("theta", "t", 1, -1.0, kw, x, np.ones(npts))
    ctx.nontrivial(any_nt)
    ctx.cls("vars:" + "".join(vars_), "passed_spot:" + case["passed_spot"], "pricer_spot:" + case["pricer_spot"],
            "pricer_strike:" + str(case["pricer_strike"]), "vega:" + case["passed_vol"] + "->" + case["pricer_vol"],
            "create_graph:" + str(cg), "shape:" + ("()" if case["scalar"] else "(n)"), "strike_as:" + case["strike_as"],
            "tree_size:%d" % min(symgreek.size_of(tree), 12))


# =========================================================================================
# findings
# =========================================================================================
def _affine_gamma(case, violation) -> bool:
    """autogreek.gamma raises RuntimeError ("... not have been used in the graph") for a pricer that is affine in
    spot (delta does not depend on spot, so the second autograd.grad has nothing to differentiate) instead of
    returning 0.  Only this label - produced only when sympy proves d2 price / d spot2 == 0 - is attributed."""
    return violation["label"] == "C08/autogreek/gamma/affine-in-spot-raises"


# The defect behind this label was repaired in /repo ("fix: autogreek.gamma returns zero for a price that is affine in
# spot"); the label stays so that the violation is reported again if it ever returns, and nothing is suppressed.
KNOWN = {}


# =========================================================================================
# oracle self-check
# =========================================================================================
def check_selfcheck(case, ctx):
    r1 = numdiff.selfcheck()
    r2 = symgreek.selfcheck()
    if not (r1 <= 1.0 and r2 <= 1.0):
        raise HarnessError(f"oracle self-check failed: ridders {r1:.3g}, derivative tables {r2:.3g} (must be <= 1)")
    ctx.cls("ridders-worst-ratio<=%.0e" % (10 ** math.ceil(math.log10(max(r1, 1e-12)))))
    ctx.nontrivial(True)


from . import _batch  # noqa: E402


def _kink(name, point, dtype):
    """spot exactly at its running maximum is not in the open domain of the path-dependent Greeks (the price has a kink there)"""
    return name.startswith(("lookback_", "american_binary_")) and point["dm"] == 0.0


SUBS = [
    Sub("closed_forms", check_closed, time_cap={"quick": 150.0, "thorough": 900.0},
        rule="family in {European, European binary, American binary, lookback} x form in {functional, free module, "
             "derivative-built module with arguments} x call/put (where offered) x strike in (0.1,10] (1.0 kept as a "
             "class) x 1-4 points (shape () or (n)): t uniform / log-uniform in [1e-3,5] (t=1 kept as a class), v in "
             "[1e-3,2], log-moneyness uniform in [-1,1] or within 4 total-volatility widths of the strike, running max "
             "strictly above spot (near, between spot and strike, far). Each Greek vs Ridders differences of the same "
             "object's price and vs autograd of that price. Non-trivial: some element with t != 1, strike != 1 and "
             "|Greek| > 1e-6 x its natural scale (and a Ridders estimate that is not loose).",
        strategy=lambda tier: closed_case(), examples={"quick": 6000, "thorough": 240000}),
    Sub("bound_modules", check_bound,
        rule="option on a float64 BrownianStock (sigma in [0.05,0.8], drift, dt in {1/250..0.25}, 2-8 steps, 1-3 paths, "
             "drawn torch seed), strike in [0.7,1.4], module from BlackScholes(derivative) or from_derivative; Greeks "
             "called with no arguments on the simulated state; elements with t = 0 and (path-dependent) running max == "
             "spot are outside the open domain and counted as excluded. Non-trivial as in closed_forms.",
        strategy=lambda tier: bound_case(), examples={"quick": 1600, "thorough": 48000}),
    Sub("autogreek", check_autogreek,
        rule="expression trees (depth <= 4, dyadic constants) over S, sigma, tau from + - * a/(1+b^2), sin cos tanh atan erf exp(-x^2/2) "
             "sigmoid sqrt(1+x^2) log(1+x^2) x^2, var^a, exp(c var), log var, sqrt var; wrapped as a Python function "
             "taking spot | moneyness | log_moneyness (strike from the signature or a closure), volatility | variance, "
             "time_to_maturity, restricted to the variables of the tree; called through autogreek with spot | spot+strike | "
             "moneyness+strike | log_moneyness+strike, volatility | variance, float/0-d/(n) strike, shapes () and (n), "
             "create_graph False/True (then also differentiated once more w.r.t. the user's leaf), unused and junk "
             "parameters. Oracle: sympy derivative in mpmath. Non-trivial: t != 1, strike != 1, |Greek| > 1e-6 x "
             "abs-propagated magnitude.",
        strategy=lambda tier: autogreek_case(), examples={"quick": 2400, "thorough": 72000}),
    Sub("selfcheck", check_selfcheck,
        rule="Ridders routine and the hand-written derivative tables against exactly known derivatives",
        enumerate=lambda tier: [{"selfcheck": 1}], examples={"quick": 1, "thorough": 1}, serial=True, exhaustive=True),
    Sub("batch_independence", lambda case, ctx: _batch.check_batch(case, ctx, _batch.DELTAS + _batch.GREEKS + _batch.AUTOGRAD, "C08", skip=_kink),
        rule="2..7 points of the open domain per call (hit and not-hit barriers in any order, log-moneyness incl. exact 0) as vector / column / "
             "matrix: every closed-form and autograd Greek at an element of the batch must equal the Greek of that element evaluated alone (which "
             "closed_forms ties to the derivative of the price). Non-trivial: hit and not-hit barriers in one batch.",
        strategy=lambda tier: _batch.batch_case(boundary=False), examples={"quick": 1200, "thorough": 12000}),
]

META = {
    "technique": "property-based testing: generated option points, simulated derivative states and sympy-generated "
                 "pricers vs Ridders-extrapolated differences of the object's own price, direct autograd of that price, "
                 "and symbolic derivatives evaluated in mpmath",
    "level_text": "Exploration: thousands of generated points per run over all four option families, three call forms "
                  "and derivative-bound modules, every Greek compared with a derivative of that object's own price "
                  "obtained without autograd or closed forms; autogreek exercised with generated smooth programs under "
                  "every accepted parameterisation against exact symbolic derivatives. A sample of the domain, not a proof.",
}
