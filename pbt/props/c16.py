"""C16 - Computations never mutate market data nor depend on call history."""
import copy

import torch
from hypothesis import strategies as st

from ..core import Sub
from ..gens import (DTYPES, OPTIONS, PRICERS, STOCKS, build_primary, build_scenario, hedge_list, primary_spec, scenario,
                    seed_s, simulate)

PROPERTY_ID = "C16"
ASSUMPTIONS = [
    "mutation = any bitwise change of values, shape or dtype of any buffer of any instrument or of any caller tensor "
    "(requires_grad flags set by autogreek on a caller tensor change no value and are not counted)",
    "history independence: every result of the long-lived hedger is compared bitwise with a fresh hedger built from a deep copy "
    "of the current model and criterion, same input names and same train/eval mode, under the same torch seed",
]


def snap_instruments(instruments):
    out = []
    for ins in instruments:
        for name, buf in ins.named_buffers():
            out.append((ins, name, buf, buf.detach().clone()))
    return out


def snap_changed(snap):
    """Returns description of the first changed buffer (or None)."""
    for ins, name, ref, val in snap:
        cur = ins.get_buffer(name)
        if cur.shape != val.shape or cur.dtype != val.dtype:
            return f"{type(ins).__name__}.{name}: shape/dtype {tuple(cur.shape)}/{cur.dtype} was {tuple(val.shape)}/{val.dtype}"
        if not bool(((cur == val) | (cur.isnan() & val.isnan())).all()):
            return f"{type(ins).__name__}.{name}: values changed (max |diff| {float((cur - val).abs().nan_to_num(0).max()):.3e})"
    return None


# ------------------------------------------------------------------------- (a) sweep
def tensors_unchanged(pairs):
    for name, t, ref in pairs:
        if t.shape != ref.shape or t.dtype != ref.dtype or not bool(((t == ref) | (t.isnan() & ref.isnan())).all()):
            return name
    return None


def check_sweep(case, ctx):
    import pfhedge.autogreek as autogreek
    import pfhedge.nn.functional as F
    from pfhedge.features import Barrier, ModuleOutput, Ones, Spot, UnderlierSpot, get_feature
    from pfhedge.nn import (BlackScholes, Clamp, EntropicLoss, EntropicRiskMeasure, ExpectedShortfall, IsoelasticLoss, LeakyClamp,
                            QuadraticCVaR)

    objs = build_scenario(case)
    deriv, hedger, hedge = objs["derivative"], objs["hedger"], objs["hedge"]
    with ctx.sut("C16/simulate"):
        simulate(case, objs)
    ul = objs["ul"]
    if "variance" in dict(ul.named_buffers()) and case["sim_seed"] % 2 == 0:
        # a calm market: variances far below their usual level (any guard that "repairs" small values in place would show)
        ul.register_buffer("variance", ul.get_buffer("variance") * 1e-3)
        ctx.cls("tiny-variance")
    instruments = [ul]
    Tn = ul.spot.shape[1]
    dtype = ul.spot.dtype
    is_opt = case["deriv"]["type"] in OPTIONS
    is_stock = case["ul"]["type"] in STOCKS
    positive = case["ul"]["type"] != "VasicekRate"
    lin = torch.nn.Linear(2, 2).to(dtype)

    ops = []

    def op(name, fn):
        ops.append((name, fn))

    op("payoff", lambda: deriv.payoff())
    names = ["underlier_spot", "zeros"] + (["moneyness", "log_moneyness", "time_to_maturity", "max_moneyness", "max_log_moneyness"] if is_opt and positive else [])
    names += ["volatility", "variance"] if is_stock else []
    feats = [(n, get_feature(n)) for n in names] + [("barrier", Barrier(1.0)), ("ones", Ones())]
    if positive:
        feats.append(("underlier_log_spot", UnderlierSpot(log=True)))
    if deriv.is_listed:
        feats += [("spot", Spot())] + ([("log_spot", Spot(log=True))] if positive else [])
    feats.append(("module_output", ModuleOutput(lin, ["underlier_spot", "zeros"])))
    # a delta-one listed instrument: its pricer hands out the underlier's own series
    import pfhedge.instruments as I
    fwd = I.EuropeanOption(ul, maturity=deriv.maturity)
    fwd.list(lambda d: d.ul().spot)
    for n, f in [("delta_one.spot", Spot())] + ([("delta_one.log_spot", Spot(log=True))] if positive else []):
        fb = f.of(fwd)
        op(f"feature:{n}.get(None)", lambda fb=fb: fb.get(None))
        op(f"feature:{n}.get(i)", lambda fb=fb: [fb.get(i) for i in range(Tn)])
    for n, f in feats:
        fb = f.of(deriv)
        op(f"feature:{n}.get(None)", lambda fb=fb: fb.get(None))
        op(f"feature:{n}.get(i)", lambda fb=fb: [fb.get(i) for i in range(Tn)])
    for h in hedge_list(objs):
        op("hedge.spot", lambda h=h: h.spot)
    op("compute_hedge", lambda: hedger.compute_hedge(deriv, hedge=hedge))
    op("compute_pl", lambda: hedger.compute_pl(deriv, hedge=hedge))
    op("compute_portfolio", lambda: hedger.compute_portfolio(deriv, hedge=hedge))
    op("get_input", lambda: hedger.get_input(deriv, None) if "prev_hedge" not in case["inputs"] and case["model"] not in ("ww",) else None)
    if is_opt and is_stock and (case["deriv"]["type"] in ("EuropeanOption", "EuropeanBinaryOption") or case["deriv"].get("call", True)):
        bs = BlackScholes(deriv)
        for g in ("price", "delta", "gamma", "vega", "theta"):
            op("bs." + g, lambda g=g: getattr(bs, g)())
        op("bs.forward", lambda: bs(torch.stack([getattr(get_feature(n).of(deriv), "get")(None).squeeze(-1) for n in bs.inputs()], -1)))
    with torch.no_grad():
        for name, fn in ops:
            snap = snap_instruments(instruments)
            with ctx.sut("C16/sweep/" + name.split(":")[0]):
                fn()
            ch = snap_changed(snap)
            if not ctx.check(ch is None, "C16/mutates-buffer", f"{name} modified {ch}", op=name):
                return
            ctx.cls("op:" + name.split(".get")[0])
    # ---- every listed instrument quotes its own pricer's value, whichever other quotes were read before
    listed = [h for h in hedge_list(objs) + [deriv] if isinstance(h, I.BaseDerivative) and h.is_listed]
    with torch.no_grad():
        for order in (listed, listed[::-1]):
            for a in order:
                with ctx.sut("C16/sweep/hedge.spot"):
                    got, want = a.spot, a.pricer(a)
                if not ctx.check(got.shape == want.shape and bool(((got == want) | (got.isnan() & want.isnan())).all()), "C16/history-dependence",
                                 f"the quoted price of listed {type(a).__name__}(strike={getattr(a, 'strike', None)}) is not its pricer's value "
                                 f"after the quotes of {len(listed) - 1} other listed instruments were read"):
                    return
    ctx.cls("listed-instruments:%d" % len(listed))
    # ---- caller tensors
    g = torch.Generator().manual_seed(case["sim_seed"])
    n = case["n_paths"] + 1
    x = torch.randn(n, 3, generator=g, dtype=dtype)
    xp = x.abs() + 0.1
    s = torch.randn(n, generator=g, dtype=dtype) * 0.2
    t = torch.rand(n, generator=g, dtype=dtype) + 0.05
    v = torch.rand(n, generator=g, dtype=dtype) * 0.5 + 0.05
    m = s + torch.rand(n, generator=g, dtype=dtype) * 0.1
    spot = torch.rand(n, 2, 4, generator=g, dtype=dtype) + 0.5
    unit = torch.randn(n, 2, 4, generator=g, dtype=dtype)
    payoff = torch.rand(n, generator=g, dtype=dtype)
    lo, hi = -torch.rand(n, 3, generator=g, dtype=dtype), torch.rand(n, 3, generator=g, dtype=dtype)
    K = torch.tensor(1.1, dtype=dtype)
    caller = {"x": x, "xp": xp, "s": s, "t": t, "v": v, "m": m, "spot": spot, "unit": unit, "payoff": payoff, "lo": lo, "hi": hi, "K": K}
    refs = {k_: v_.clone() for k_, v_ in caller.items()}
    crits = [EntropicRiskMeasure(), EntropicLoss(), ExpectedShortfall(0.3), QuadraticCVaR(2.0)]
    cops = [
        ("pl", lambda: F.pl(spot, unit, cost=[1e-3, 2e-3], payoff=payoff)),
        ("clamp", lambda: (F.clamp(x, lo, hi), F.leaky_clamp(x, lo, hi), Clamp()(x, lo, hi), LeakyClamp()(x, lo, hi),
                           F.clamp(x, hi, lo, inverted_output="max"), F.leaky_clamp(x, hi, lo, inverted_output="max"))),
        ("criteria", lambda: [(c(x), c(x, payoff.unsqueeze(-1)), c.cash(x), c.cash(x, 0.5)) for c in crits]),
        ("isoelastic", lambda: (IsoelasticLoss(0.5)(xp), IsoelasticLoss(1.0)(xp), IsoelasticLoss(0.5).cash(xp))),
        ("risk-functionals", lambda: (F.expected_shortfall(x, 0.5, dim=0), F.value_at_risk(x, 0.3, dim=0), F.quadratic_cvar(x, 2.0, dim=0),
                                      F.entropic_risk_measure(x), F.exp_utility(x), F.isoelastic_utility(xp, 0.5), F.topp(x, 0.5, dim=0))),
        ("bs-functionals", lambda: (F.bs_european_price(s, t, v, strike=K), F.bs_european_delta(s, t, v), F.bs_european_gamma(s, t, v, strike=K),
                                    F.bs_european_vega(s, t, v, strike=K), F.bs_european_theta(s, t, v, strike=K),
                                    F.bs_european_binary_price(s, t, v), F.bs_european_binary_delta(s, t, v, strike=K),
                                    F.bs_european_binary_gamma(s, t, v, strike=K), F.bs_american_binary_price(s, m, t, v),
                                    F.bs_american_binary_delta(s, m, t, v, strike=K), F.bs_lookback_price(s, m, t, v, strike=K),
                                    F.d1(s, t, v), F.d2(s, t, v), F.ncdf(s), F.npdf(s))),
        ("payoffs", lambda: (F.european_payoff(spot, strike=1.0), F.lookback_payoff(spot, call=False), F.american_binary_payoff(spot),
                             F.european_binary_payoff(spot), F.european_forward_start_payoff(spot, start_index=1),
                             F.realized_variance(spot, dt=0.01), F.realized_volatility(spot, dt=0.01))),
        ("helpers", lambda: (F.bilerp(x, x * 2, lo, hi, 0.3, 0.6), F.svi_variance(s, 0.04, 0.4, -0.4, 0.0, 0.1), F.box_muller(t.clamp(max=0.99), v),
                             F.ww_width(v, t, 1e-3))),
    ]
    for name, fn in cops:
        with torch.no_grad():
            with ctx.sut("C16/sweep/" + name):
                fn()
        bad = tensors_unchanged([(k_, caller[k_], refs[k_]) for k_ in caller])
        if not ctx.check(bad is None, "C16/mutates-argument", f"{name} modified the caller's tensor '{bad}'", op=name):
            return
        ctx.cls("op:" + name)
    # autograd-based Greeks on caller tensors (values must be untouched; requires_grad may be set)
    def pricer(log_moneyness, time_to_maturity, volatility, strike):
        return F.bs_european_price(log_moneyness, time_to_maturity, volatility, strike=strike)
    gops = [
        ("autogreek", lambda: (autogreek.delta(pricer, log_moneyness=s, time_to_maturity=t, volatility=v, strike=K),
                               autogreek.gamma(pricer, log_moneyness=s, time_to_maturity=t, volatility=v, strike=K),
                               autogreek.vega(pricer, log_moneyness=s, time_to_maturity=t, volatility=v, strike=K),
                               autogreek.theta(pricer, log_moneyness=s, time_to_maturity=t, volatility=v, strike=K))),
        ("lookback-greeks", lambda: (F.bs_lookback_delta(s, m, t, v, strike=K), F.bs_lookback_gamma(s, m, t, v, strike=K),
                                     F.bs_lookback_vega(s, m, t, v, strike=K), F.bs_lookback_theta(s, m, t, v, strike=K))),
    ]
    for name, fn in gops:
        with ctx.sut("C16/sweep/" + name):
            fn()
        bad = tensors_unchanged([(k_, caller[k_].detach(), refs[k_]) for k_ in caller])
        if not ctx.check(bad is None, "C16/mutates-argument", f"{name} modified the caller's tensor '{bad}'", op=name):
            return
        ctx.cls("op:" + name)
    logf = any("log" in str(i) for i in case["inputs"]) or case["model"] in ("bs", "ww")
    ctx.nontrivial(True)
    ctx.cls("deriv:" + case["deriv"]["type"], "ul:" + case["ul"]["type"], "log-feature:" + str(logf))


# ------------------------------------------------------------------------- (b) histories
@st.composite
def history_case(draw):
    H = draw(st.sampled_from([1, 1, 2]))
    inputs = draw(st.lists(st.sampled_from(["log_moneyness", "moneyness", "time_to_maturity", "underlier_spot", "__underlier_log_spot",
                                            "max_log_moneyness", "volatility", "__module_output"]), min_size=1, max_size=3, unique=True))
    if draw(st.booleans()):
        inputs.append("prev_hedge")
    uls = [draw(primary_spec(types=STOCKS, dtype=None, cost=True, dts=[1 / 250, 1 / 52], default_params=True)) for _ in range(2)]
    ders = []
    for i in range(draw(st.integers(2, 3))):
        ders.append({"ul": draw(st.integers(0, 1)), "type": draw(st.sampled_from(OPTIONS)), "steps": draw(st.integers(2, 6)),
                     "strike": draw(st.sampled_from([1.0, 0.95, 1.05]))})
    if draw(st.booleans()):
        # two contracts that look alike to anything keyed by shape / dtype: same number of steps, different underliers and step sizes
        ders[1]["steps"], ders[1]["ul"], ders[0]["ul"] = ders[0]["steps"], 1, 0
        if uls[0]["dt"] == uls[1]["dt"]:
            uls[1]["dt"] = 1 / 52 if uls[0]["dt"] != 1 / 52 else 1 / 250
    di = st.integers(0, len(ders) - 1)
    npath = st.integers(1, 6)
    op_s = st.one_of(
        st.tuples(st.just("simulate"), di, npath, seed_s),
        st.tuples(st.just("compute_hedge"), di), st.tuples(st.just("compute_pl"), di), st.tuples(st.just("compute_portfolio"), di),
        st.tuples(st.just("compute_loss"), di, npath, seed_s), st.tuples(st.just("price"), di, npath, seed_s),
        st.tuples(st.just("fit"), di, npath, seed_s), st.tuples(st.just("to"), st.sampled_from(["float32", "float64"])),
        st.tuples(st.just("mode"), st.sampled_from(["train", "eval"])), st.tuples(st.just("bindings"), di),
        st.tuples(st.just("backward"), di, npath, seed_s),
    )
    ops = draw(st.lists(op_s, min_size=2, max_size=10))
    return {"H": H, "inputs": inputs, "uls": uls, "ders": ders, "ops": [list(o) for o in ops], "model_seed": draw(seed_s),
            "model": draw(st.sampled_from(["linear", "recurrent", "mlp", "mlp_leaky"])), "crit": draw(st.sampled_from(["entropic_rm", "es"])),
            # none of these models has a layer whose output depends on the train/eval mode: the reference hedger may be in the other mode
            "flip_ref": draw(st.booleans())}


def _build_inputs(names, dtype):
    from pfhedge.features import ModuleOutput, UnderlierSpot

    out = []
    for n in names:
        if n == "__underlier_log_spot":
            out.append(UnderlierSpot(log=True))
        elif n == "__module_output":
            torch.manual_seed(7)
            out.append(ModuleOutput(torch.nn.Linear(2, 1).to(dtype), ["underlier_spot", "zeros"]))
        else:
            out.append(n)
    return out


def check_history(case, ctx):
    import pfhedge.instruments as I
    from pfhedge.nn import EntropicRiskMeasure, ExpectedShortfall, Hedger, MultiLayerPerceptron

    from ..gens import Recurrent

    H = case["H"]
    uls = [build_primary(u) for u in case["uls"]]
    ders, hedges = [], []
    for d in case["ders"]:
        ul = uls[d["ul"]]
        ders.append(getattr(I, d["type"])(ul, strike=d["strike"], maturity=d["steps"] * ul.dt))
        if H == 2:
            o = I.EuropeanOption(ul, strike=1.02 + 0.01 * len(hedges), maturity=d["steps"] * ul.dt)
            o.list(PRICERS["tanh"], cost=1e-3)
            hedges.append([ul, o])
        else:
            hedges.append(None)
    n_feat = sum(H if n == "prev_hedge" else 1 for n in case["inputs"])
    torch.manual_seed(case["model_seed"])
    if case["model"] == "linear":
        model = torch.nn.Linear(n_feat, H)
    elif case["model"] == "mlp":
        model = MultiLayerPerceptron(n_feat, H, n_layers=2, n_units=3)
    elif case["model"] == "mlp_leaky":
        from pfhedge.nn import LeakyClamp

        class Band(torch.nn.Module):  # a leaky no-transaction band with fixed bounds (pfhedge's LeakyClamp)
            def __init__(self):
                super().__init__()
                self.clamp = LeakyClamp(0.1)

            def forward(self, input):
                return self.clamp(input, -0.05, 0.1)
        model = torch.nn.Sequential(MultiLayerPerceptron(n_feat, H, n_layers=1, n_units=3), Band())
    else:
        model = Recurrent(n_feat, H)
    crit = EntropicRiskMeasure() if case["crit"] == "entropic_rm" else ExpectedShortfall(0.4)
    cur_dtype = torch.float32
    hedger = Hedger(model, _build_inputs(case["inputs"], cur_dtype), criterion=crit)
    used = set()
    computed = 0

    def fresh():
        f = Hedger(copy.deepcopy(hedger.model), _build_inputs(case["inputs"], cur_dtype), criterion=copy.deepcopy(hedger.criterion))
        f.train(hedger.training != bool(case.get("flip_ref")))
        for p_ in f.parameters():
            p_.grad = None  # gradients left by the caller's own backward passes are not parameters
        return f

    def hold():
        """Series the caller still holds (e.g. to plot them) while the instruments are simulated again."""
        return [(type(u).__name__ + "." + n, b, b.detach().clone()) for u in uls for n, b in u.named_buffers()]

    def held_intact(held, label):
        bad = tensors_unchanged(held)
        return ctx.check(bad is None, "C16/mutates-buffer", f"{label}: simulating again overwrote the series '{bad}' the caller still holds")

    def same(a, b):
        return a.shape == b.shape and a.dtype == b.dtype and bool(((a == b) | (a.isnan() & b.isnan())).all())

    def ensure_sim(i):
        """The derivative's underlier must hold a simulation on this derivative's own grid."""
        ul = ders[i].ul()
        bufs = dict(ul.named_buffers())
        if "spot" not in bufs or bufs["spot"].shape[1] != case["ders"][i]["steps"] + 1:
            torch.manual_seed(1000 + i)
            ders[i].simulate(n_paths=2)

    for step, o in enumerate(case["ops"]):
        kind = o[0]
        label = f"op#{step} {o}"
        held = hold() if kind in ("simulate", "compute_loss", "price", "fit", "backward") else []
        modes_before = [(n_, m_.training) for n_, m_ in hedger.named_modules()]
        if kind == "simulate":
            _, i, n, seed = o
            torch.manual_seed(seed)
            with ctx.sut("C16/history/simulate"):
                ders[i].simulate(n_paths=n)
        elif kind == "backward":
            # the caller's own training step: leaves .grad on the parameters (and, like fit, simulates)
            _, i, n, seed = o
            torch.manual_seed(seed)
            with ctx.sut("C16/history/backward"):
                l_ = hedger.compute_loss(ders[i], hedge=hedges[i], n_paths=n)
                if l_.requires_grad and bool(torch.isfinite(l_)):
                    l_.backward()
        elif kind in ("compute_hedge", "compute_pl", "compute_portfolio"):
            i = o[1]
            ensure_sim(i)
            snap = snap_instruments(uls)
            with torch.no_grad():
                with ctx.sut("C16/history/" + kind):
                    r1 = getattr(hedger, kind)(ders[i], hedge=hedges[i])
                    r2 = getattr(fresh(), kind)(ders[i], hedge=hedges[i])
            if not ctx.check(same(r1, r2), "C16/history-dependence", f"{label}: result differs from a fresh hedger with the same parameters",
                             ops=case["ops"][: step + 1]):
                return
            ch = snap_changed(snap)
            if not ctx.check(ch is None, "C16/mutates-buffer", f"{label} modified {ch}"):
                return
            used.add(i)
            computed += 1
        elif kind in ("compute_loss", "price"):
            _, i, n, seed = o
            f = fresh()
            with ctx.sut("C16/history/" + kind):
                torch.manual_seed(seed)
                r1 = getattr(hedger, kind)(ders[i], hedge=hedges[i], n_paths=n)
                b1 = [b.clone() for b in ders[i].ul().buffers()]
                torch.manual_seed(seed)
                r2 = getattr(f, kind)(ders[i], hedge=hedges[i], n_paths=n)
                b2 = [b.clone() for b in ders[i].ul().buffers()]
            if not ctx.check(same(r1.detach(), r2.detach()), "C16/history-dependence", f"{label}: {kind} differs from a fresh hedger ({float(r1)!r} vs {float(r2)!r})"):
                return
            ctx.check(all(same(x, y) for x, y in zip(b1, b2)), "C16/history-dependence", f"{label}: simulated paths depend on the hedger's history")
            used.add(i)
            computed += 1
        elif kind == "fit":
            _, i, n, seed = o
            f = fresh()
            with ctx.sut("C16/history/fit"):
                torch.manual_seed(seed)
                h1 = hedger.fit(ders[i], hedge=hedges[i], n_epochs=1, n_paths=n, verbose=False, optimizer=torch.optim.SGD(hedger.model.parameters(), lr=0.05))
                torch.manual_seed(seed)
                h2 = f.fit(ders[i], hedge=hedges[i], n_epochs=1, n_paths=n, verbose=False, optimizer=torch.optim.SGD(f.model.parameters(), lr=0.05))
            p1 = [p.detach() for p in hedger.model.parameters()]
            p2 = [p.detach() for p in f.model.parameters()]
            ok = all(same(x, y) for x, y in zip(p1, p2)) and (h1 == h2 or all(a != a and b != b for a, b in zip(h1, h2)))
            if not ctx.check(ok, "C16/history-dependence", f"{label}: fit on the long-lived hedger differs from fit on a fresh copy"):
                return
            used.add(i)
            computed += 1
        elif kind == "to":
            cur_dtype = DTYPES[o[1]]
            with ctx.sut("C16/history/to"):
                hedger.to(cur_dtype)
                for f_ in hedger.inputs.features:
                    if isinstance(f_, torch.nn.Module):
                        f_.to(cur_dtype)
                for u in uls:
                    u.to(cur_dtype)
        elif kind == "mode":
            hedger.train(o[1] == "train")
        elif kind == "bindings":
            i = o[1]
            j = (i + 1) % len(ders)
            if ders[i].ul() is ders[j].ul() and case["ders"][i]["steps"] != case["ders"][j]["steps"]:
                continue  # the two derivatives cannot be simulated at the same time
            ensure_sim(i)
            ensure_sim(j)
            from pfhedge.features import get_feature
            for n in ("moneyness", "log_moneyness", "underlier_spot", "time_to_maturity"):
                base = get_feature(n)
                fi = base.of(ders[i])
                before = fi.get(None)
                fj = fi.of(ders[j])  # re-binding a bound feature must not disturb the original
                fj.get(None)
                after = fi.get(None)
                if not ctx.check(same(before, after), "C16/feature-binding", f"{label}: feature {n} bound to one derivative changed after .of(another)"):
                    return
        if held and not held_intact(held, label):
            return
        if kind not in ("fit", "mode"):
            # evaluating leaves the train/eval mode of the hedger (and of everything inside it) as the caller set it
            modes_after = [(n_, m_.training) for n_, m_ in hedger.named_modules()]
            if not ctx.check(modes_after == modes_before, "C16/history-dependence",
                             f"{label} changed the train/eval mode of the hedger: later results depend on this call having been made"):
                return
    ctx.nontrivial((len(used) >= 2 and "prev_hedge" in case["inputs"]) or (computed >= 1 and any("log" in n for n in case["inputs"])))
    ctx.cls("derivs-used:%d" % len(used), "H:%d" % H, "state-dependent:" + str("prev_hedge" in case["inputs"]),
            "ops:%d" % len(case["ops"]), "model:" + case["model"])
    for o in case["ops"]:
        ctx.cls("op:" + o[0])


META = {
    "technique": "property-based testing: before/after bitwise snapshots over an operation sweep, and model-based history testing (generated operation sequences vs a fresh-clone reference)",
    "level_text": "Exploration: (a) every public computation (payoff, every feature incl. log/module variants, listed prices, hedge/P&L/portfolio, BS modules, functionals, criteria and cash, clamps, autogreek) x generated instrument scenarios with bitwise snapshots of all buffers and caller tensors; (b) generated operation sequences (simulate / compute_* / compute_loss / price / fit / to / train-eval / feature re-binding) on one hedger with 2-3 derivatives, each result compared bitwise with a fresh hedger holding the same parameters.",
}

SUBS = [
    Sub("immutability_sweep", check_sweep,
        rule="hedging scenario (all derivative/underlier types, listed or not) x ~40 operations on instruments and ~10 operation groups on "
             "caller tensors; every generated case is non-trivial (each runs the whole sweep).",
        strategy=lambda tier: scenario(models=("linear", "mlp", "bs", "ww", "naked", "recurrent", "identity", "identity", "inplace"), dtype="any", max_paths=4, min_steps=2, max_steps=6),
        examples={"quick": 640, "thorough": 6400}),
    Sub("history", check_history,
        rule="op sequences of length 2..10 over {simulate, compute_hedge, compute_pl, compute_portfolio, compute_loss, price, fit(1 epoch), "
             "to(dtype), train/eval, feature re-binding, caller's own loss.backward()}; buffers held by the caller across every re-simulating op must stay bitwise intact; on one hedger (Linear / MLP / recurrent; H in {1,2}; inputs incl. log, "
             "max-log, module-output and prev_hedge features) with 2-3 derivatives on 2 underliers. Non-trivial: >=2 derivatives "
             "used with a state-dependent input, or a computing op with a log feature.",
        strategy=lambda tier: history_case(), examples={"quick": 1600, "thorough": 16000}, fuzz={"thorough": 120.0}),
]
